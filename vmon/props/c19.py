"""
C19 - rotation and transform representations convert consistently.

Monitor shape: independent slow reference.  A small rotation algebra written here from the
definitions (elementary axis rotations, Hamilton product, textbook quaternion -> matrix in exact
rationals for integer quaternions, Rodrigues' formula in the K, K^2 form, explicit homogeneous
products in longdouble) observes every call of the real functions in trimesh.transformations,
trimesh.geometry.align_vectors / plane_transform and scene.transforms.kwargs_to_matrix.

Conventions (from the module documentation of transformations.py, whose example states
euler_matrix(a, b, c, 'rxyz') == Rx(a).Ry(b).Rz(c)):
    static  'sIJK': R = R_K(ak) . R_J(aj) . R_I(ai)
    rotating'rIJK': R = R_I(ai) . R_J(aj) . R_K(ak)
and the 4-tuple encoding (inner axis = axis of the rightmost matrix, parity, repetition, frame) is
re-derived from that documentation and compared with the _AXES2TUPLE table.

Round trips are judged on the ROTATION (matrices compared entry-wise; quaternions up to sign;
Euler triples only through the matrix they generate).  The angle returned by
align_vectors(return_angle=True) is outside the statement: recorded, never judged (the matrix
align_vectors returns is not the minimal rotation, so the documented "angle between a and b" is
not a representation of the returned rotation; no sentence of the statement relates the two).

Round 4 (hunter): input classes added for
  * rotation angles from 1e-9 up to the library's absolute 1e-8 eigenvalue window (1.4e-4 rad)
    and axes with a component between 1e-9 and 1e-3 of the others (rotation_from_matrix);
  * a ladder of middle angles 1e-15 .. 1e-6 from every gimbal configuration, and matrices that did
    not come out of euler_matrix (reference products: absolute entry noise) - the rotation the
    returned angles generate is judged with the flat 1e-11 everywhere (the former eps/|cos aj|
    allowance described the conditioning of the ANGLES, not of the rotation they generate);
  * axis vectors of any length 1e-100 .. 1e100 (quaternion_about_axis, rotation_matrix);
  * points / offsets / point arrays of unsigned, signed and float32 dtypes and as Python lists;
  * arguments given as ndarrays (angles as 0-d arrays) converted twice.
"""

from __future__ import annotations

import itertools
import math
from fractions import Fraction

import numpy as np

PROP = "C19"
LEVEL = "exploration"
RULE = (
    "all 24 Euler conventions (string and tuple form) x angle triples from a grid holding 0, +-pi/2, +-pi, "
    "gimbal +-1e-9 and generic values (quick: 8 x 20 x 8 per convention, thorough: 20^3); integer quaternions "
    "in [-3,3]^4 (every component dominant, both signs) plus scaled / random ones; the 24 proper signed "
    "permutation matrices; axis-angle over axes x angle grid x points; TRS(+shear) factor sets incl. negative "
    "scales; 2-D and 3-D point arrays x matrix classes (both sides of the 1e-8 identity shortcut) x "
    "translate flag; planar / rigid helpers; vector pairs (parallel, antiparallel, axis, random, non-unit); "
    "rotation angles 1e-9 .. 1e-3 and pi-1e-9 .. pi x axes with a component 1e-9 .. 1e-3 of the others; "
    "middle angles 1e-15 .. 1e-6 from every gimbal configuration x 24 conventions, matrices given as "
    "reference products; axis lengths 1e-100 .. 1e100; points of unsigned / signed / float32 dtype and lists; "
    "every conversion called twice on the same ndarray argument objects (angles as 0-d arrays). "
    "A case is one call chain on one input; distinct = distinct (function, convention, input values); "
    "trivial = identity rotation / all-zero angles / empty point array."
)
ANCHORS = [
    "trimesh/transformations.py:rotation_matrix",
    "trimesh/transformations.py:rotation_from_matrix",
    "trimesh/transformations.py:quaternion_matrix",
    "trimesh/transformations.py:quaternion_from_matrix",
    "trimesh/transformations.py:quaternion_about_axis",
    "trimesh/transformations.py:quaternion_multiply",
    "trimesh/transformations.py:quaternion_conjugate",
    "trimesh/transformations.py:quaternion_inverse",
    "trimesh/transformations.py:quaternion_slerp",
    "trimesh/transformations.py:euler_matrix",
    "trimesh/transformations.py:euler_from_matrix",
    "trimesh/transformations.py:euler_from_quaternion",
    "trimesh/transformations.py:quaternion_from_euler",
    "trimesh/transformations.py:compose_matrix",
    "trimesh/transformations.py:decompose_matrix",
    "trimesh/transformations.py:transform_points",
    "trimesh/transformations.py:transform_around",
    "trimesh/transformations.py:planar_matrix",
    "trimesh/transformations.py:planar_matrix_to_3D",
    "trimesh/transformations.py:scale_and_translate",
    "trimesh/transformations.py:is_rigid",
    "trimesh/transformations.py:fix_rigid",
    "trimesh/geometry.py:align_vectors",
    "trimesh/geometry.py:plane_transform",
    "trimesh/scene/transforms.py:kwargs_to_matrix",
]
SHARDS = {"quick": 1, "thorough": 8}
BUDGET = {"quick": 55, "thorough": 300}
MIN_EVENTS = {"quick": 20000, "thorough": 100000}
ASSUMPTIONS = [
    "math.sin / math.cos, numpy matrix products and Fraction arithmetic of the reference are correct",
    "the documented example euler_matrix(a,b,c,'rxyz') == Rx(a).Ry(b).Rz(c) fixes the meaning of the 24 conventions",
    "two rotations are 'the same' when their matrices agree entry-wise within the stated absolute tolerance "
    "(1e-13 direct constructions, 1e-11 inverse conversions on well-conditioned input; the rotation generated by "
    "extracted Euler angles is well conditioned at any distance from gimbal lock, the individual angles are not)",
    "axis vectors have a length in 1e-100 .. 1e100 (the squared length is representable); integer-typed points hold "
    "values their dtype represents exactly",
]
EXHAUSTIVE = {"quick": False, "thorough": False}

PI = math.pi
EPS = float(np.finfo(np.float64).eps)
TIGHT = 1e-13  # direct constructions: a handful of roundings on entries <= 1
RT = 1e-11  # inverse conversions (atan2 / eigen-decomposition) on well-conditioned input

AXES_ALL = [f + "".join(p) for f in "sr" for p in (
    "xyz", "xyx", "xzy", "xzx", "yzx", "yzy", "yxz", "yxy", "zxy", "zxz", "zyx", "zyz")]
AJ_GRID = [0.0, PI / 2, -PI / 2, PI, -PI, PI / 2 + 1e-9, PI / 2 - 1e-9, -PI / 2 + 1e-9, -PI / 2 - 1e-9,
           1e-9, -1e-9, PI - 1e-9, -PI + 1e-9, 0.3, -1.1, 2.5, PI / 4, -3 * PI / 4, 4.0, -5.5]
AI_GRID_QUICK = [0.0, PI / 2, -PI / 2, PI, 1e-9, 0.3, -1.1, 2.5]


# ------------------------------------------------------------------------------------------
# the reference algebra


def rax(axis, a):
    c, s = math.cos(a), math.sin(a)
    if axis == 0:
        return np.array([[1, 0, 0], [0, c, -s], [0, s, c]], dtype=np.float64)
    if axis == 1:
        return np.array([[c, 0, s], [0, 1, 0], [-s, 0, c]], dtype=np.float64)
    return np.array([[c, -s, 0], [s, c, 0], [0, 0, 1]], dtype=np.float64)


def euler_ref(ai, aj, ak, axes):
    I, J, K = ("xyz".index(ch) for ch in axes[1:])
    if axes[0] == "s":
        return rax(K, ak) @ rax(J, aj) @ rax(I, ai)
    return rax(I, ai) @ rax(J, aj) @ rax(K, ak)


_Q_GENERIC = None


def matrix_product_ref(R):
    """
    The same rotation as the result of a matrix product: (R . Q) . Q^T for a fixed generic rotation Q.
    Equal to R within ~3e-16 per entry, but the small entries now carry ABSOLUTE (~1e-16), not
    relative, accuracy - as the output of any product of transforms, of quaternion_matrix,
    rotation_matrix or a Gram-Schmidt pass does.  (euler_matrix and a single Rodrigues rotation keep
    their small entries relatively accurate: they are single products of sines and cosines.)
    """
    global _Q_GENERIC
    if _Q_GENERIC is None:
        _Q_GENERIC = rax(2, -1.2) @ rax(1, 0.4) @ rax(0, 0.7)
    return (R @ _Q_GENERIC) @ _Q_GENERIC.T


def axes_tuple_ref(axes):
    """4-tuple encoding derived from the documentation (not from the table)."""
    letters = axes[1:] if axes[0] == "s" else axes[1:][::-1]
    first = "xyz".index(letters[0])
    second = "xyz".index(letters[1])
    parity = 0 if second == (first + 1) % 3 else 1
    repetition = 1 if letters[0] == letters[2] else 0
    return (first, parity, repetition, 0 if axes[0] == "s" else 1)


def gimbal_class(aj, axes):
    """'exact' / 'near' / 'regular' from the middle angle alone."""
    rep = axes[1] == axes[3]
    v = abs(math.sin(aj)) if rep else abs(math.cos(aj))
    if v < 4 * EPS:
        return "exact"
    # round 4: 1e-3, was 1e-6.  With the flat tolerance a random middle angle 1e-5 from the
    # configuration fails for the same reason as one 1e-9 away (error eps / v) and has to land under
    # the same key; at v = 1e-3 that error is 1e-13, two decades below RT.
    if v < 1e-3:
        return "near"
    return "regular"


def gimbal_measure(aj, axes):
    rep = axes[1] == axes[3]
    return abs(math.sin(aj)) if rep else abs(math.cos(aj))


def inverse_tol(aj, axes, base=None):
    """
    Tolerance on the ROTATION generated by angles that were extracted from a matrix whose entries
    are accurate to ~eps absolutely (built from a quaternion, after Gram-Schmidt, a product ...).

    Until round 4 this was base + 8 eps / v between the code's 4 eps switch and the regular region
    (v = |cos aj|, |sin aj| for repeated-axis conventions), on the argument that the first and the
    last angle are atan2 of two entries of size v.  That is the conditioning of the individual
    ANGLES; the statement speaks of the rotation they describe, and that is determined by the O(1)
    entries to ~1e-15 at any distance from the gimbal configuration (an extraction that takes the
    last angle from what is left after removing the first one achieves it, see notes/C19.md
    round 4).  The allowance was the monitor accepting the defect, so it is gone: flat base.
    """
    return RT if base is None else base


def quat_matrix_ref(q):
    """textbook unit-quaternion matrix; exact rationals when q is integer."""
    w, x, y, z = q
    if all(float(v).is_integer() for v in q):
        w, x, y, z = (Fraction(int(v)) for v in q)
    n = w * w + x * x + y * y + z * z
    R = [
        [w * w + x * x - y * y - z * z, 2 * (x * y - w * z), 2 * (x * z + w * y)],
        [2 * (x * y + w * z), w * w - x * x + y * y - z * z, 2 * (y * z - w * x)],
        [2 * (x * z - w * y), 2 * (y * z + w * x), w * w - x * x - y * y + z * z],
    ]
    return np.array([[float(v / n) for v in row] for row in R], dtype=np.float64)


def hamilton(p, q):
    """p * q, textbook"""
    pw, px, py, pz = p
    qw, qx, qy, qz = q
    return np.array([
        pw * qw - px * qx - py * qy - pz * qz,
        pw * qx + px * qw + py * qz - pz * qy,
        pw * qy - px * qz + py * qw + pz * qx,
        pw * qz + px * qy - py * qx + pz * qw,
    ], dtype=np.float64)


def unit_ref(v):
    """v / |v| for any representable length (scaled first: v @ v must not under- / overflow)"""
    u = np.asarray(v, dtype=np.float64)
    u = u / float(np.abs(u).max())
    return u / math.sqrt(float(u @ u))


def axis_length_class(axis):
    n = float(np.abs(np.asarray(axis, dtype=np.float64)).max())
    return "order_1" if 1e-6 <= n <= 1e6 else ("short" if n < 1e-6 else "long")


def axis_shape_class(axis):
    """'small_component': some nonzero component is below 0.05 of the length (an extraction that divides
    by a component, or thresholds one, behaves differently there); else 'generic'"""
    u = np.abs(unit_ref(axis))
    return "small_component" if bool(np.any((u > 0) & (u < 0.05))) else "generic"


def rodrigues_ref(angle, axis):
    u = unit_ref(axis)
    K = np.array([[0, -u[2], u[1]], [u[2], 0, -u[0]], [-u[1], u[0], 0]], dtype=np.float64)
    return np.eye(3) + math.sin(angle) * K + (1 - math.cos(angle)) * (K @ K)


def homog(R, t=None):
    d = R.shape[0]
    M = np.eye(d + 1)
    M[:d, :d] = R
    if t is not None:
        M[:d, d] = t
    return M


def apply_ref(M, P, translate=True):
    """explicit homogeneous product in longdouble"""
    M = np.asarray(M, dtype=np.longdouble)
    P = np.asarray(P, dtype=np.longdouble)
    d = P.shape[1]
    out = P @ M[:d, :d].T
    if translate:
        out = out + M[:d, d]
    return np.asarray(out, dtype=np.float64)


def as_form(values, form):
    """
    The same numbers in another container / dtype (round 4): None / 'float64' -> float64 ndarray,
    'list' -> Python list (ints when integral), any numpy dtype name -> ndarray of that dtype.  The
    caller supplies values that the dtype represents exactly (checked).
    """
    if values is None:
        return None
    v = np.asarray(values, dtype=np.float64)
    if form in (None, "float64"):
        return v
    if form == "list":
        return [int(x) if float(x).is_integer() else float(x) for x in v.ravel()] if v.ndim == 1 else \
            [[int(x) if float(x).is_integer() else float(x) for x in row] for row in v]
    out = v.astype(form)
    if not np.array_equal(out.astype(np.float64), v):
        raise AssertionError("harness: %r not representable as %s" % (v, form))
    return out


def form_class(form):
    if form in (None, "float64"):
        return "float64"
    if form.startswith("uint"):
        return "unsigned_int"
    if form.startswith("int"):
        return "signed_int"
    return form


def form_key(name, form):
    fc = form_class(form)
    return "" if fc == "float64" else " %s=%s" % (name, fc)


INT_FORMS = ["uint8", "uint16", "uint32", "uint64", "int8", "int16", "int32", "int64", "float32", "list"]


def int_point(rng, dim, form):
    """integer-valued point the form represents exactly; the extreme of a signed type now and then"""
    if form_class(form) == "signed_int":
        info = np.iinfo(form)
        p = rng.integers(-100, 101, size=dim).astype(np.float64)
        if info.bits <= 16 and rng.random() < 0.4:
            p[int(rng.integers(dim))] = float(info.min)
        return p
    return rng.integers(1, 200, size=dim).astype(np.float64)


def dev(A, B):
    A = np.asarray(A, dtype=np.float64)
    B = np.asarray(B, dtype=np.float64)
    if A.shape != B.shape or not np.isfinite(A).all():
        return float("inf")
    return float(np.max(np.abs(A - B))) if A.size else 0.0


def rot_defect(R):
    """max deviation of R R^T from I and of det from +1"""
    R = np.asarray(R, dtype=np.float64)
    if R.shape != (3, 3) or not np.isfinite(R).all():
        return float("inf")
    return max(float(np.max(np.abs(R @ R.T - np.eye(3)))), abs(float(np.linalg.det(R)) - 1.0))


def conv_key(axes):
    t = axes_tuple_ref(axes)
    return "frame=%s_parity=%d_repetition=%d" % ("rotating" if t[3] else "static", t[1], t[2])


def inv_key(axes, gc):
    """
    key part (convention class + angle class) for the matrix -> angles direction.  In the regular
    region the full convention class; at and near the gimbal configuration the extraction branches on
    `repetition` only (parity and frame merely negate / swap the extracted angles afterwards, and a
    mistake there shows in the regular region under its own key), so one mechanism gives two keys,
    not eight.
    """
    if gc == "regular":
        return " %s angles=regular" % conv_key(axes)
    return " repetition=%d angles=gimbal_%s" % (axes_tuple_ref(axes)[2], gc)


# ------------------------------------------------------------------------------------------
# judge helper


class J:
    def __init__(self, run):
        self.run = run
        self.worst = {}

    def check(self, key, what, d, tol, case):
        self.run.count("comparisons")
        name = key.split(" ")[0]
        if np.isfinite(d) and tol > 0:
            w = self.worst.get(name, 0.0)
            if d / tol > w:
                self.worst[name] = d / tol
        if not (d <= tol):
            case = dict(case)
            case.update(deviation=d, tolerance=tol)
            self.run.violation(key, what, case)
            return False
        return True

    def exception(self, key, e, case):
        # only exceptions raised inside the library count; a failure of this module is a harness error
        tb = e.__traceback__
        while tb is not None and tb.tb_next is not None:
            tb = tb.tb_next
        if tb is not None and tb.tb_frame.f_code.co_filename == __file__:
            raise e
        case = dict(case)
        case["exception"] = repr(e)[:300]
        self.run.violation(key + " sym=exception:%s" % type(e).__name__, "library raised %r" % (e,), case)


def check_homogeneous_rotation(j, fn, M, case, extra_key=""):
    """4x4, last row/column of a pure rotation, proper orthonormal 3x3."""
    M = np.asarray(M)
    k = "fn=%s%s" % (fn, extra_key)
    if M.shape != (4, 4):
        j.check(k + " law=shape_4x4", "%s did not return a 4x4 matrix" % fn, float("inf"), 1.0, case)
        return False
    ok = j.check(k + " law=orthonormal_det+1", "%s produced a matrix that is not a proper rotation" % fn,
                 rot_defect(M[:3, :3]), TIGHT, case)
    ok &= j.check(k + " law=homogeneous_frame", "%s: last row / column are not those of a pure rotation" % fn,
                  max(dev(M[3], [0, 0, 0, 1]), dev(M[:3, 3], [0, 0, 0])), 0.0, case)
    return ok


# ------------------------------------------------------------------------------------------
# A. Euler


def euler_case(j, tf, axes, form, ai, aj, ak):
    run = j.run
    ck = conv_key(axes)
    gc = gimbal_class(aj, axes)
    case = {"section": "euler", "axes": axes, "form": form, "angles": [ai, aj, ak]}
    arg = axes if form == "string" else axes_tuple_ref(axes)
    trivial = ai == 0 and aj == 0 and ak == 0
    run.case("euler:" + form, axes, ai, aj, ak, nontrivial=not trivial)
    run.state("euler_convention_x_gimbal", (axes, gc))
    kk = " %s angles=%s" % (ck, "gimbal_" + gc if gc != "regular" else "regular")
    ik = inv_key(axes, gc)
    Rref = euler_ref(ai, aj, ak, axes)
    try:
        M = tf.euler_matrix(ai, aj, ak, arg)
    except Exception as e:
        j.exception("fn=euler_matrix" + kk, e, case)
        return
    if not check_homogeneous_rotation(j, "euler_matrix", M, case, kk):
        return
    j.check("fn=euler_matrix%s law=matches_elementary_rotations" % kk,
            "euler_matrix differs from the product of elementary rotations of the convention",
            dev(M[:3, :3], Rref), TIGHT, case)
    # matrix -> angles -> matrix
    try:
        a2 = tf.euler_from_matrix(M, arg)
        R2 = euler_ref(a2[0], a2[1], a2[2], axes)
        j.check("fn=euler_from_matrix%s input=euler_matrix law=roundtrip_rotation" % ik,
                "angles returned by euler_from_matrix generate a different rotation",
                dev(R2, Rref), RT, dict(case, returned=list(map(float, a2))))
    except Exception as e:
        j.exception("fn=euler_from_matrix" + ik, e, case)
    # the same rotation as a matrix that did NOT come out of euler_matrix (whose small entries are
    # single products and keep their relative accuracy): the result of a matrix product, absolute
    # noise (every non-regular case, one regular case in three: the route only differs from the one
    # above where entries are small).  Judged against the matrix that was handed over.
    if gc != "regular" or run.evaluations % 3 == 0:
        Rmp = matrix_product_ref(Rref)
        try:
            a5 = tf.euler_from_matrix(homog(Rmp), arg)
            R5 = euler_ref(a5[0], a5[1], a5[2], axes)
            j.check("fn=euler_from_matrix%s input=matrix_product law=roundtrip_rotation" % ik,
                    "angles returned by euler_from_matrix for a matrix that is the result of a product generate a different rotation",
                    dev(R5, Rmp), RT, dict(case, matrix=Rmp, returned=list(map(float, a5))))
        except Exception as e:
            j.exception("fn=euler_from_matrix%s input=matrix_product" % ik, e, case)
    # angles -> quaternion
    try:
        q = np.asarray(tf.quaternion_from_euler(ai, aj, ak, arg), dtype=np.float64)
        j.check("fn=quaternion_from_euler%s law=unit_norm" % kk, "quaternion_from_euler is not a unit quaternion",
                abs(float(q @ q) - 1.0), TIGHT, dict(case, q=q))
        j.check("fn=quaternion_from_euler%s law=same_rotation" % kk,
                "quaternion_from_euler describes a different rotation than the convention defines",
                dev(quat_matrix_ref(q), Rref), TIGHT, dict(case, q=q))
        # quaternion -> angles
        a3 = tf.euler_from_quaternion(q, arg)
        R3 = euler_ref(a3[0], a3[1], a3[2], axes)
        # a matrix built from a quaternion has absolute, not relative, accuracy in its small
        # entries; the rotation the angles generate is nevertheless determined: see inverse_tol
        j.check("fn=euler_from_quaternion%s law=roundtrip_rotation" % ik,
                "angles returned by euler_from_quaternion generate a different rotation",
                dev(R3, Rref), inverse_tol(aj, axes), dict(case, q=q, returned=list(map(float, a3))))
    except Exception as e:
        j.exception("fn=quaternion_from_euler" + kk, e, case)
    # matrix -> quaternion, both algorithms
    for precise in (False, True):
        try:
            q = np.asarray(tf.quaternion_from_matrix(M, isprecise=precise), dtype=np.float64)
            br = qfm_branch(M)
            run.state("quaternion_from_matrix_branch", (precise, br))
            qk = "fn=quaternion_from_matrix isprecise=%s branch=%s" % (precise, br if precise else "eigh")
            j.check(qk + " law=unit_norm", "quaternion_from_matrix is not a unit quaternion",
                    abs(float(q @ q) - 1.0), RT, dict(case, q=q, isprecise=precise))
            j.check(qk + " law=roundtrip_rotation", "quaternion_from_matrix describes a different rotation",
                    dev(quat_matrix_ref(q), Rref), RT, dict(case, q=q, isprecise=precise))
            # composite route matrix -> quaternion -> Euler angles -> matrix: the quaternion carries
            # ~1e-16 of ABSOLUTE noise, so near the gimbal configuration the individual angles are
            # only determined to eps / v - but the ROTATION they generate must still be the same one
            # (flat tolerance since round 4, see inverse_tol)
            a4 = tf.euler_from_quaternion(q, arg)
            R4 = euler_ref(a4[0], a4[1], a4[2], axes)
            tol4 = inverse_tol(aj, axes)
            j.check("fn=euler_from_quaternion_after_quaternion_from_matrix isprecise=%s angles=%s law=roundtrip_rotation"
                    % (precise, "gimbal_" + gc if gc != "regular" else "regular"),
                    "matrix -> quaternion_from_matrix -> euler_from_quaternion gives angles of a different rotation",
                    dev(R4, Rref), tol4, dict(case, q=q, isprecise=precise, returned=list(map(float, a4))))
        except Exception as e:
            j.exception("fn=quaternion_from_matrix isprecise=%s" % precise, e, case)


def qfm_branch(M):
    """which branch of the closed-form algorithm the input selects (computed here, not observed)"""
    M = np.asarray(M, dtype=np.float64)
    if np.trace(M) > M[3, 3]:
        return "trace"
    i = 0
    if M[1, 1] > M[0, 0]:
        i = 1
    if M[2, 2] > M[i, i]:
        i = 2
    return "diag_" + "xyz"[i]


def euler_table_check(j, tf):
    for axes in AXES_ALL:
        j.run.case("euler:table", axes)
        want = axes_tuple_ref(axes)
        got = tf._AXES2TUPLE.get(axes)
        j.check("fn=_AXES2TUPLE %s law=matches_documented_encoding" % conv_key(axes),
                "table entry differs from the documented (inner axis, parity, repetition, frame) encoding",
                0.0 if tuple(got or ()) == want else 1.0, 0.5, {"section": "table", "axes": axes, "got": got, "want": want})
        j.check("fn=_TUPLE2AXES %s law=inverse_of_table" % conv_key(axes), "tuple -> string table is not the inverse",
                0.0 if tf._TUPLE2AXES.get(want) == axes else 1.0, 0.5, {"section": "table", "axes": axes})


# ------------------------------------------------------------------------------------------
# B. quaternions


def quaternion_case(j, tf, q, tag="int"):
    run = j.run
    q = np.asarray(q, dtype=np.float64)
    case = {"section": "quaternion", "q": q.tolist(), "class": tag}
    dom = int(np.argmax(np.abs(q)))
    run.state("quaternion_dominant_component_sign", ("wxyz"[dom], int(np.sign(q[dom]))))
    trivial = np.count_nonzero(q[1:]) == 0
    run.case("quaternion:" + tag, q, nontrivial=not trivial)
    Rref = quat_matrix_ref(q)
    try:
        M = tf.quaternion_matrix(q)
        if check_homogeneous_rotation(j, "quaternion_matrix", M, case, " input=%s" % tag):
            j.check("fn=quaternion_matrix input=%s law=matches_textbook" % tag,
                    "quaternion_matrix differs from the textbook rotation of the quaternion",
                    dev(M[:3, :3], Rref), TIGHT, case)
        # list input and batch input
        Mb = tf.quaternion_matrix([list(q), list(-q)])
        j.check("fn=quaternion_matrix input=batch law=q_and_-q_same_rotation",
                "batched quaternion_matrix: q and -q give different rotations / wrong shape",
                max(dev(Mb[0][:3, :3], Rref), dev(Mb[1][:3, :3], Rref)) if np.shape(Mb) == (2, 4, 4) else float("inf"),
                TIGHT, case)
        for precise in (False, True):
            q2 = np.asarray(tf.quaternion_from_matrix(M, isprecise=precise), dtype=np.float64)
            br = qfm_branch(M)
            run.state("quaternion_from_matrix_branch", (precise, br))
            qn = q / math.sqrt(float(q @ q))
            d = min(dev(q2, qn), dev(q2, -qn))
            j.check("fn=quaternion_from_matrix isprecise=%s branch=%s law=roundtrip_quaternion_up_to_sign"
                    % (precise, br if precise else "eigh"),
                    "quaternion -> matrix -> quaternion changed the rotation", d, RT,
                    dict(case, isprecise=precise, returned=q2))
    except Exception as e:
        j.exception("fn=quaternion_matrix input=%s" % tag, e, case)
    # conjugate / inverse / real / imag
    try:
        c = np.asarray(tf.quaternion_conjugate(q))
        j.check("fn=quaternion_conjugate law=negated_vector_part", "conjugate is not (w, -x, -y, -z)",
                dev(c, [q[0], -q[1], -q[2], -q[3]]), 0.0, case)
        inv = np.asarray(tf.quaternion_inverse(q))
        n = float(q @ q)
        j.check("fn=quaternion_inverse law=q*inv=1", "q * inverse(q) is not the unit quaternion",
                dev(hamilton(q, inv), [1, 0, 0, 0]), TIGHT * max(1.0, n), case)
        j.check("fn=quaternion_real/imag law=components", "real / imag parts wrong",
                max(abs(tf.quaternion_real(q) - q[0]), dev(tf.quaternion_imag(q), q[1:])), 0.0, case)
    except Exception as e:
        j.exception("fn=quaternion_conjugate/inverse", e, case)


def quaternion_pair_case(j, tf, q1, q0):
    run = j.run
    q1 = np.asarray(q1, dtype=np.float64)
    q0 = np.asarray(q0, dtype=np.float64)
    case = {"section": "quaternion_pair", "q1": q1.tolist(), "q0": q0.tolist()}
    run.case("quaternion:multiply", q1, q0)
    try:
        p = np.asarray(tf.quaternion_multiply(q1, q0), dtype=np.float64)
        want = hamilton(q1, q0)
        scale = max(1.0, float(np.abs(q1).max() * np.abs(q0).max()))
        j.check("fn=quaternion_multiply law=hamilton_product", "quaternion_multiply(q1, q0) is not q1*q0",
                dev(p, want), 16 * EPS * scale, case)
        if float(p @ p) > 0:
            j.check("fn=quaternion_multiply law=matrix_homomorphism",
                    "matrix(q1*q0) differs from matrix(q1).matrix(q0)",
                    dev(quat_matrix_ref(p), quat_matrix_ref(q1) @ quat_matrix_ref(q0)), TIGHT, case)
    except Exception as e:
        j.exception("fn=quaternion_multiply", e, case)


def slerp_case(j, tf, q0, q1, f, shortest):
    run = j.run
    q0 = np.asarray(q0, dtype=np.float64)
    q1 = np.asarray(q1, dtype=np.float64)
    u0 = q0 / math.sqrt(float(q0 @ q0))
    u1 = q1 / math.sqrt(float(q1 @ q1))
    d = float(u0 @ u1)
    case = {"section": "slerp", "q0": q0.tolist(), "q1": q1.tolist(), "fraction": f, "shortestpath": shortest}
    # keep away from the parallel / antipodal thresholds (the code switches at 4 eps)
    if abs(abs(d) - 1.0) < 1e-6:
        run.skip("slerp endpoints (anti)parallel")
        return
    run.case("quaternion:slerp", q0, q1, f, shortest)
    try:
        r = np.asarray(tf.quaternion_slerp(q0.copy(), q1.copy(), f, 0, shortest), dtype=np.float64)
    except Exception as e:
        j.exception("fn=quaternion_slerp", e, case)
        return
    if shortest and d < 0:
        u1, d = -u1, -d
    theta = math.acos(max(-1.0, min(1.0, d)))
    conj0 = np.array([u0[0], -u0[1], -u0[2], -u0[3]])
    rel = hamilton(u1, conj0)  # (cos theta, sin theta * axis)
    s = math.sin(theta)
    axis = rel[1:] / s
    want_rel = np.concatenate([[math.cos(f * theta)], math.sin(f * theta) * axis])
    got_rel = hamilton(r, conj0)
    if dev(-got_rel, want_rel) < dev(got_rel, want_rel):
        got_rel = -got_rel  # q and -q are the same rotation
    k = "fn=quaternion_slerp shortestpath=%s" % shortest
    j.check(k + " law=unit_norm", "slerp result is not a unit quaternion", abs(float(r @ r) - 1.0), 1e-12, case)
    j.check(k + " law=fraction_of_relative_rotation",
            "slerp(q0,q1,f)*conj(q0) is not the relative rotation taken to the fraction f",
            dev(got_rel, want_rel), 1e-11 / max(s, 1e-3), dict(case, got=r))


def about_axis_case(j, tf, angle, axis):
    run = j.run
    case = {"section": "about_axis", "angle": angle, "axis": list(map(float, axis))}
    run.case("quaternion:about_axis", angle, np.asarray(axis, dtype=np.float64), nontrivial=angle != 0)
    al = axis_length_class(axis)
    run.state("axis_length_class", ("quaternion_about_axis", al))
    k = "fn=quaternion_about_axis" + ("" if al == "order_1" else " axis_length=%s" % al)
    try:
        q = np.asarray(tf.quaternion_about_axis(angle, axis), dtype=np.float64)
        j.check(k + " law=unit_norm", "not a unit quaternion", abs(float(q @ q) - 1.0), TIGHT, dict(case, q=q))
        j.check(k + " law=same_rotation_as_axis_angle",
                "quaternion_about_axis differs from the axis-angle rotation",
                dev(quat_matrix_ref(q), rodrigues_ref(angle, axis)) if float(q @ q) > 0 else float("inf"),
                TIGHT, dict(case, q=q))
    except Exception as e:
        j.exception(k, e, case)


# ------------------------------------------------------------------------------------------
# C. axis-angle, rotation about a point


def axis_angle_case(j, tf, angle, axis, point, pform=None):
    run = j.run
    axis = np.asarray(axis, dtype=np.float64)
    case = {"section": "axis_angle", "angle": angle, "axis": axis.tolist(),
            "point": None if point is None else list(map(float, point)), "point_form": pform}
    if pform is not None:
        run.state("point_form", ("rotation_matrix", pform))
    s_ang = abs(math.sin(angle / 2))
    aclass = "zero" if s_ang < 1e-12 else ("tiny" if s_ang < 1e-6 else ("small" if s_ang < 1e-3 else (
        "pi" if abs(math.cos(angle / 2)) < 1e-6 else "regular")))
    al = axis_length_class(axis)
    ash = axis_shape_class(axis)
    run.state("axis_angle_class", (aclass, point is not None))
    run.state("axis_angle_x_axis_shape", (aclass, ash))
    run.state("axis_length_class", ("rotation_matrix", al))
    run.case("axis_angle", angle, axis, None if point is None else np.asarray(point, dtype=np.float64), pform,
             nontrivial=aclass != "zero")
    Rref = rodrigues_ref(angle, axis)
    pk = " point=%s" % ("yes" if point is not None else "no") + form_key("point_dtype", pform)
    if al != "order_1":
        pk += " axis_length=%s" % al
    try:
        M = np.asarray(tf.rotation_matrix(angle, axis, as_form(point, pform) if pform else point), dtype=np.float64)
    except Exception as e:
        j.exception("fn=rotation_matrix" + pk, e, case)
        return
    psc = 1.0 + (float(np.abs(point).sum()) if point is not None else 0.0)
    j.check("fn=rotation_matrix%s law=orthonormal_det+1" % pk, "rotation_matrix is not a proper rotation",
            rot_defect(M[:3, :3]), TIGHT, case)
    j.check("fn=rotation_matrix%s law=matches_rodrigues" % pk, "rotation_matrix differs from Rodrigues' formula",
            dev(M[:3, :3], Rref), TIGHT, case)
    j.check("fn=rotation_matrix%s law=last_row" % pk, "last row is not [0,0,0,1]", dev(M[3], [0, 0, 0, 1]), 0.0, case)
    if point is None:
        j.check("fn=rotation_matrix point=no law=no_translation", "rotation about the origin has a translation",
                dev(M[:3, 3], [0, 0, 0]), 0.0, case)
    else:
        p = np.asarray(point, dtype=np.float64)
        j.check("fn=rotation_matrix point=yes law=point_fixed", "rotating about a point moved that point",
                dev(apply_ref(M, p[None])[0], p), 16 * EPS * psc, case)
        # and a second point on the axis
        p2 = p + 2.5 * unit_ref(axis)
        j.check("fn=rotation_matrix point=yes law=axis_fixed", "a point of the rotation axis moved",
                dev(apply_ref(M, p2[None])[0], p2), 32 * EPS * (psc + 2.5), case)
    # matrix -> (angle, axis, point) -> matrix.  Judged for every angle: the law is about the
    # TRANSFORM the returned triple rebuilds (for a rotation by 1e-9 the skew part of the matrix still
    # holds the axis to full relative accuracy; until round 4 this class was skipped as "axis not
    # recoverable" and the others had 1e-9, which hid errors of 4e-7 at 1e-9 rad and 2e-9 for axes
    # with a component near the code's 1e-8 switch).  Inverse conversion on well-conditioned input: RT.
    # key: the angle class with tiny folded into small (one window), the axis shape; the rotation block
    # and the point are judged separately (the point only once the rotation is right) so that the key
    # says which of the two extractions failed without doubling every key by point=yes/no
    rk = "fn=rotation_from_matrix angle=%s axis=%s%s" % ("small" if aclass == "tiny" else aclass, ash, form_key("point_dtype", pform))
    try:
        a2, d2, p2 = tf.rotation_from_matrix(M)
        M2 = np.asarray(tf.rotation_matrix(a2, d2, p2), dtype=np.float64)
        Mref = homog(Rref)
        if point is not None:
            pp = np.asarray(point, dtype=np.float64)
            Mref[:3, 3] = pp - Rref @ pp
        ret = dict(case, returned=[float(a2), list(map(float, d2)), list(map(float, p2))])
        if j.check(rk + " law=roundtrip_rotation", "(angle, axis) from rotation_from_matrix rebuild a different rotation",
                   dev(M2[:3, :3], Rref), RT, ret):
            j.check(rk + " law=roundtrip_point", "the point from rotation_from_matrix rebuilds a different transform",
                    dev(M2, Mref), RT * psc, ret)
    except Exception as e:
        j.exception(rk, e, case)


def transform_around_case(j, tf, M, point, pform=None):
    run = j.run
    M = np.asarray(M, dtype=np.float64)
    p = np.asarray(point, dtype=np.float64)
    d = len(p)
    case = {"section": "transform_around", "matrix": M.tolist(), "point": p.tolist(), "point_form": pform}
    run.case("transform_around:%dd" % d, M, p, pform)
    if pform is not None:
        run.state("point_form", ("transform_around", pform))
    # the dtype of the point acts before the dimension matters: one key per dtype class
    k = "fn=transform_around" + (" dim=%d" % d if form_class(pform) == "float64" else form_key("point_dtype", pform))
    try:
        T = np.asarray(tf.transform_around(M, as_form(p, pform)), dtype=np.float64)
    except Exception as e:
        j.exception(k, e, case)
        return
    A = np.eye(d + 1, dtype=np.longdouble)
    A[:d, d] = -p
    B = np.eye(d + 1, dtype=np.longdouble)
    B[:d, d] = p
    want = np.asarray(B @ M.astype(np.longdouble) @ A, dtype=np.float64)
    sc = 1.0 + float(np.abs(p).sum()) * float(np.abs(M).max()) + float(np.abs(M).max())
    ok = j.check(k + " law=T(p).M.T(-p)", "transform_around is not translate . M . translate^-1",
                 dev(T, want), 16 * EPS * sc, case)
    if np.all(M[:d, d] == 0) and (ok or form_class(pform) == "float64"):
        j.check(k + " law=point_fixed", "the point a linear map is applied around moved",
                dev(apply_ref(T, p[None])[0], p), 32 * EPS * sc, case)


# ------------------------------------------------------------------------------------------
# D. compose / decompose


def compose_case(j, tf, scale, shear, angles, translate):
    run = j.run
    scale = np.asarray(scale, dtype=np.float64)
    shear = np.asarray(shear, dtype=np.float64)
    translate = np.asarray(translate, dtype=np.float64)
    case = {"section": "compose", "scale": scale.tolist(), "shear": shear.tolist(), "angles": list(angles),
            "translate": translate.tolist()}
    signs = "".join("+" if s > 0 else "-" for s in scale)
    gc = gimbal_class(angles[1], "sxyz")
    run.state("compose_sign_x_gimbal", (signs, gc, bool(np.any(shear != 0))))
    run.case("compose_decompose", scale, shear, tuple(angles), translate)
    R = euler_ref(angles[0], angles[1], angles[2], "sxyz")
    Z = np.eye(3)
    Z[0, 1], Z[0, 2], Z[1, 2] = shear
    want = homog(R @ Z @ np.diag(scale), translate)
    msc = max(1.0, float(np.abs(want).max()))
    sk = " scale_signs=%s shear=%s" % ("uniform" if signs in ("+++", "---") else "mixed", "yes" if np.any(shear != 0) else "no")
    try:
        M = np.asarray(tf.compose_matrix(scale, shear, angles, translate), dtype=np.float64)
    except Exception as e:
        j.exception("fn=compose_matrix" + sk, e, case)
        return
    j.check("fn=compose_matrix%s law=T.R.Z.S" % sk, "compose_matrix is not translate . rotate . shear . scale",
            dev(M, want), 32 * EPS * msc, case)
    try:
        s2, z2, a2, t2, p2 = tf.decompose_matrix(M)
    except Exception as e:
        j.exception("fn=decompose_matrix" + sk, e, case)
        return
    ret = {"scale": list(map(float, s2)), "shear": list(map(float, z2)), "angles": list(map(float, a2)),
           "translate": list(map(float, t2)), "perspective": list(map(float, p2))}
    # the rotation is extracted after a Gram-Schmidt pass (absolute entry accuracy); the rotation
    # the angles generate is determined all the same (inverse_tol).  Until round 4 the near-gimbal
    # band had eps/|cos aj| + 3e-8 on top: the first excused the defect, the second belonged to the
    # arcsin that 3e5d0cd replaced by atan2.
    tol = inverse_tol(angles[1], "sxyz") * msc
    gk = " angles=%s" % ("gimbal_" + gc if gc != "regular" else "regular")
    if gc == "near":
        # near the gimbal configuration every scale / shear class takes the same path
        sk = ""
    try:
        M2 = np.asarray(tf.compose_matrix(s2, z2, a2, t2, p2), dtype=np.float64)
        j.check("fn=decompose_matrix%s%s law=recompose_same_matrix" % (sk, gk),
                "compose(decompose(M)) differs from M", dev(M2, M), tol, dict(case, returned=ret))
    except Exception as e:
        j.exception("fn=compose_matrix(decompose)" + sk, e, case)
    j.check("fn=decompose_matrix%s%s law=translate_returned" % (sk, gk), "translation factor changed",
            dev(t2, translate), 8 * EPS * msc, dict(case, returned=ret))
    j.check("fn=decompose_matrix%s%s law=perspective_none" % (sk, gk), "perspective of an affine matrix is not [0,0,0,1]",
            dev(p2, [0, 0, 0, 1]), 8 * EPS, dict(case, returned=ret))
    if signs in ("+++", "---"):
        # R.(Z S) is a QR factorisation with a positive (or, for a mirror, negated) diagonal: unique
        j.check("fn=decompose_matrix%s%s law=scale_returned" % (sk, gk), "scale factors changed",
                dev(s2, scale), tol, dict(case, returned=ret))
        j.check("fn=decompose_matrix%s%s law=shear_returned" % (sk, gk), "shear factors changed",
                dev(z2, shear), tol * 10, dict(case, returned=ret))
        j.check("fn=decompose_matrix%s%s law=rotation_returned" % (sk, gk), "returned angles generate a different rotation",
                dev(euler_ref(a2[0], a2[1], a2[2], "sxyz"), R), tol, dict(case, returned=ret))


# ------------------------------------------------------------------------------------------
# E. transform_points


def points_case(j, tf, P, M, mclass, translate, container="ndarray"):
    run = j.run
    P = np.asarray(P, dtype=np.float64)
    M = np.asarray(M, dtype=np.float64)
    d = M.shape[0] - 1
    case = {"section": "transform_points", "points": P.tolist(), "matrix": M.tolist(), "class": mclass,
            "translate": translate, "container": container}
    near_id = float(np.abs(M - np.eye(d + 1)).max())
    shortcut = near_id < 1e-8
    run.state("points_matrix_class", (d, mclass.split(":")[0], translate))
    run.state("identity_shortcut_side", "inside" if shortcut else ("just_outside" if near_id < 1e-5 else "far"))
    run.case("transform_points:%dd" % d, P, M, translate, container,
             nontrivial=len(P) > 0 and mclass != "identity")
    if container in ("ndarray", "list", "tuple"):
        arg = P if container == "ndarray" else (P.tolist() if container == "list" else tuple(map(tuple, P.tolist())))
        fk = ""
    else:
        # round 4: the point array in an integer / float32 dtype (container is the dtype name)
        arg = as_form(P, container)
        fk = form_key("points_dtype", container)
        run.state("point_form", ("transform_points", container))
    k = "fn=transform_points dim=%d class=%s translate=%s%s" % (d, mclass.split(":")[0], translate, fk)
    try:
        got = tf.transform_points(arg, M, translate=translate)
    except Exception as e:
        j.exception(k, e, case)
        return
    got = np.asarray(got)
    if got.shape != P.shape:
        j.check(k + " law=shape_kept", "result has a different shape", float("inf"), 1.0, case)
        return
    if len(P) == 0:
        return
    want = apply_ref(M, P, translate)
    mag = np.abs(P) @ np.abs(M[:d, :d]).T + (np.abs(M[:d, d]) if translate else 0.0)
    tol = 16 * EPS * mag
    if shortcut:
        # documented shortcut: a matrix within 1e-8 of the identity returns the points unchanged
        tol = tol + 1e-8 * (1.0 + np.abs(P).sum(axis=1, keepdims=True))
    diff = np.abs(got - want)
    with np.errstate(divide="ignore", invalid="ignore"):
        r = np.where(diff == 0, 0.0, diff / tol)
    j.check(k + " law=equals_homogeneous_product", "transform_points differs from the explicit homogeneous product",
            float(r.max()) if np.isfinite(got).all() else float("inf"), 1.0, dict(case, got=got, expected=want))
    if np.shares_memory(got, P):
        j.check(k + " law=returns_new_array", "result aliases the input", 1.0, 0.5, case)


# ------------------------------------------------------------------------------------------
# F. planar / rigid helpers


def planar_case(j, tf, offset, theta, point, scale, conv, pform=None):
    run = j.run
    case = {"section": "planar", "offset": offset, "theta": theta, "point": point, "scale": scale, "point_form": pform}
    run.case("planar_matrix", offset, theta, point, scale, pform, nontrivial=bool(theta) or offset is not None)
    if pform is not None:
        run.state("point_form", ("planar_matrix", pform))
    k = "fn=planar_matrix offset=%s point=%s scale=%s" % (
        "yes" if offset is not None else "no", "yes" if point is not None else "no", "yes" if scale is not None else "no")
    if form_class(pform) != "float64":
        k = "fn=planar_matrix" + form_key("point_dtype", pform)  # the dtype acts before the options matter
    try:
        # round 4: the point and the offset also as unsigned / signed / float32 arrays and lists
        M = np.asarray(tf.planar_matrix(offset=as_form(offset, pform) if pform else offset, theta=theta,
                                        point=as_form(point, pform) if pform else point, scale=scale), dtype=np.float64)
    except Exception as e:
        j.exception(k, e, case)
        return None
    if M.shape != (3, 3):
        j.check(k + " law=shape_3x3", "not a 3x3 matrix", float("inf"), 1.0, case)
        return None
    th = 0.0 if theta is None else float(theta)
    off = np.zeros(2) if offset is None else np.asarray(offset, dtype=np.float64)
    S = np.eye(2) if scale is None else np.eye(2) * np.asarray(scale, dtype=np.float64)
    c, s = math.cos(th), math.sin(th)
    cands = {"ccw": np.array([[c, -s], [s, c]]), "cw": np.array([[c, s], [-s, c]])}
    L = M[:2, :2]
    # the linear part is scale . (a proper rotation by |theta|); the sense of theta is not part of
    # the statement: it is recorded and only required to be the same in every call
    devs = {n: dev(L, S @ R) for n, R in cands.items()}
    best = min(devs, key=devs.get)
    msc = max(1.0, float(np.abs(S).max()))
    j.check(k + " law=linear_part_is_scaled_rotation_by_theta", "linear part is not scale . rotation(+-theta)",
            devs[best], TIGHT * msc, case)
    if abs(s) > 1e-6 and devs[best] <= TIGHT * msc:
        run.state("planar_theta_sense", best)
        if conv.setdefault("sense", best) != best:
            j.check("fn=planar_matrix law=theta_sense_consistent", "the sense of rotation changes between calls", 1.0, 0.5, case)
    R = cands[best]
    # translation: p -> S.(R.(p - point) + offset + point)
    pt = np.zeros(2) if point is None else np.asarray(point, dtype=np.float64)
    want_t = S @ (R @ (-pt) + off + pt)
    sc = msc * (1.0 + float(np.abs(pt).sum()) + float(np.abs(off).sum()))
    t_ok = j.check(k + " law=translation", "translation column is not scale.(offset + point - R.point)",
                   dev(M[:2, 2], want_t), 16 * EPS * sc, case)
    j.check(k + " law=last_row", "last row is not [0,0,1]", dev(M[2], [0, 0, 1]), 0.0, case)
    if point is not None and offset is None and scale is None and (t_ok or form_class(pform) == "float64"):
        j.check("fn=planar_matrix%s law=point_fixed" % form_key("point_dtype", pform), "rotating about a point moved that point",
                dev(apply_ref(M, pt[None])[0], pt), 32 * EPS * sc, case)
    return M


def planar3d_case(j, tf, M2, P3):
    run = j.run
    case = {"section": "planar_to_3D", "matrix": np.asarray(M2).tolist()}
    run.case("planar_matrix_to_3D", np.asarray(M2, dtype=np.float64))
    try:
        M3 = np.asarray(tf.planar_matrix_to_3D(M2), dtype=np.float64)
    except Exception as e:
        j.exception("fn=planar_matrix_to_3D", e, case)
        return
    if M3.shape != (4, 4):
        j.check("fn=planar_matrix_to_3D law=shape_4x4", "not 4x4", float("inf"), 1.0, case)
        return
    got = apply_ref(M3, P3)
    want_xy = apply_ref(M2, P3[:, :2])
    sc = 1.0 + float(np.abs(P3).max()) * float(np.abs(M2).max()) + float(np.abs(M2).max())
    j.check("fn=planar_matrix_to_3D law=acts_as_2D_on_xy", "xy of the 3D matrix differs from the 2D matrix",
            dev(got[:, :2], want_xy), 16 * EPS * sc, case)
    j.check("fn=planar_matrix_to_3D law=z_unchanged", "z coordinate changed", dev(got[:, 2], P3[:, 2]), 0.0, case)
    j.check("fn=planar_matrix_to_3D law=last_row", "last row is not [0,0,0,1]", dev(M3[3], [0, 0, 0, 1]), 0.0, case)


def scale_translate_case(j, tf, scale, translate, P):
    run = j.run
    case = {"section": "scale_and_translate", "scale": scale, "translate": translate}
    run.case("scale_and_translate", scale, translate)
    kind = "scalar" if np.ndim(scale) == 0 else "vector"
    k = "fn=scale_and_translate scale=%s translate=%s" % (kind, "none" if translate is None else ("scalar" if np.ndim(translate) == 0 else "vector"))
    try:
        M = np.asarray(tf.scale_and_translate(scale=scale, translate=translate), dtype=np.float64)
    except Exception as e:
        j.exception(k, e, case)
        return
    s = np.broadcast_to(np.asarray(scale, dtype=np.float64), (3,))
    t = np.zeros(3) if translate is None else np.broadcast_to(np.asarray(translate, dtype=np.float64), (3,))
    want = P * s + t
    if M.shape != (4, 4):
        j.check(k + " law=shape_4x4", "not 4x4", float("inf"), 1.0, case)
        return
    sc = 1.0 + float(np.abs(P).max() * np.abs(s).max() + np.abs(t).max())
    j.check(k + " law=p->scale*p+translate", "matrix does not scale then translate",
            dev(apply_ref(M, P), want), 16 * EPS * sc, case)
    j.check(k + " law=last_row", "last row is not [0,0,0,1]", dev(M[3], [0, 0, 0, 1]), 0.0, case)


def rigid_case(j, tf, M, mclass, rng):
    """is_rigid / fix_rigid on a matrix of a known class"""
    run = j.run
    M = np.asarray(M, dtype=np.float64)
    case = {"section": "rigid", "matrix": M.tolist(), "class": mclass}
    run.case("is_rigid", M, mclass)
    L = M[:3, :3]
    # the size of R.R^T - I (not its peak-to-peak value, which is zero for any constant offset:
    # the monitor had copied that slip of is_rigid, repaired in the library by f4c38f2)
    defect = float(np.abs(L @ L.T - np.eye(3)).max())
    try:
        got = bool(tf.is_rigid(M))
    except Exception as e:
        j.exception("fn=is_rigid class=%s" % mclass, e, case)
        return
    run.state("is_rigid_class_result", (mclass, got))
    # 1e-8 is the documented epsilon: judge only matrices a factor >= 10 away from it
    if defect < 1e-9:
        j.check("fn=is_rigid class=%s law=rigid_accepted" % mclass, "a rotation + translation is reported as not rigid",
                0.0 if got else 1.0, 0.5, dict(case, defect=defect))
    elif defect > 1e-7:
        j.check("fn=is_rigid class=%s law=nonrigid_rejected" % mclass, "a matrix with R.R^T != I is reported as rigid",
                1.0 if got else 0.0, 0.5, dict(case, defect=defect))
    else:
        run.skip("is_rigid within a decade of the documented epsilon")


def fix_rigid_case(j, tf, M, noise, dim, rng):
    run = j.run
    M = np.asarray(M, dtype=np.float64)
    Mn = M.copy()
    Mn[:dim, :dim] += rng.uniform(-noise, noise, size=(dim, dim))
    case = {"section": "fix_rigid", "matrix": Mn.tolist(), "noise": noise, "dim": dim}
    L = Mn[:dim, :dim]
    check = float(np.abs(L @ L.T - np.eye(dim)).max())
    cls = "exact" if check <= 1e-14 else ("repairable" if 1e-12 < check < 1e-6 else ("beyond" if check > 1e-4 else "band"))
    run.state("fix_rigid_class", (dim, cls))
    if cls == "band":
        run.skip("fix_rigid within a decade of a documented threshold")
        return
    run.case("fix_rigid:%dd" % dim, Mn)
    k = "fn=fix_rigid dim=%d input=%s" % (dim, cls)
    try:
        F = np.asarray(tf.fix_rigid(Mn.copy()), dtype=np.float64)
    except Exception as e:
        j.exception(k, e, case)
        return
    if F.shape != Mn.shape:
        j.check(k + " law=shape_kept", "shape changed", float("inf"), 1.0, case)
        return
    j.check(k + " law=translation_kept", "translation changed", dev(F[:dim, dim], Mn[:dim, dim]), 0.0, case)
    j.check(k + " law=last_row", "last row not homogeneous", dev(F[dim], np.eye(dim + 1)[dim]), 0.0, case)
    if cls == "repairable":
        FL = F[:dim, :dim]
        j.check(k + " law=result_orthonormal", "repaired matrix is not orthonormal",
                float(np.abs(FL @ FL.T - np.eye(dim)).max()), TIGHT, case)
        j.check(k + " law=close_to_input", "repaired matrix is far from the input", dev(F, Mn), 4 * noise + 1e-12, case)
        j.check(k + " law=orientation_kept", "repair changed the handedness",
                abs(float(np.linalg.det(FL)) - 1.0), 1e-9, case)
    else:
        j.check(k + " law=returned_unchanged", "matrix outside the repair band was altered", dev(F, Mn), 0.0, case)


# ------------------------------------------------------------------------------------------
# G. align_vectors / plane_transform / kwargs_to_matrix


def align_case(j, geometry, a, b, cls, angle_stats):
    run = j.run
    a = np.asarray(a, dtype=np.float64)
    b = np.asarray(b, dtype=np.float64)
    case = {"section": "align_vectors", "a": a.tolist(), "b": b.tolist(), "class": cls}
    run.case("align_vectors:" + cls, a, b)
    ua, ub = a / math.sqrt(float(a @ a)), b / math.sqrt(float(b @ b))
    k = "fn=align_vectors class=%s" % cls
    try:
        M = np.asarray(geometry.align_vectors(a, b), dtype=np.float64)
        M2, ang = geometry.align_vectors(a, b, return_angle=True)
    except Exception as e:
        j.exception(k, e, case)
        return
    if M.shape != (4, 4):
        j.check(k + " law=shape_4x4", "not 4x4", float("inf"), 1.0, case)
        return
    j.check(k + " law=orthonormal_det+1", "align_vectors matrix is not a proper rotation", rot_defect(M[:3, :3]), 1e-12, case)
    j.check(k + " law=maps_a_to_b", "align_vectors matrix does not map a onto b", dev(M[:3, :3] @ ua, ub), 1e-12, case)
    j.check(k + " law=no_translation", "matrix has a translation / bad last row",
            max(dev(M[:3, 3], [0, 0, 0]), dev(M[3], [0, 0, 0, 1])), 0.0, case)
    j.check(k + " law=return_angle_same_matrix", "return_angle=True returns a different matrix", dev(M2, M), 0.0, case)
    # the returned ANGLE is outside the statement: recorded only.  Re-examined in round 4: the matrix
    # align_vectors returns (bu . au^T of two SVD bases) is NOT the minimal rotation - its own rotation
    # angle differs from the angle between a and b in 998 of 1000 random pairs - so the documented
    # "angle between `a` and `b`" is a property of the two input vectors, not a representation of the
    # returned rotation, and the statement (rotations, matrices, points) has no sentence that ties it
    # to anything.  It is wrong all the same (docstring): notes/patches/C19/6.diff.
    true = math.acos(max(-1.0, min(1.0, float(ua @ ub))))
    angle_stats["n"] += 1
    if abs(float(ang) - true) > 1e-6:
        angle_stats["differs_from_angle_between"] += 1


def plane_case(j, geometry, origin, normal, rng):
    run = j.run
    origin = np.asarray(origin, dtype=np.float64)
    normal = np.asarray(normal, dtype=np.float64)
    case = {"section": "plane_transform", "origin": origin.tolist(), "normal": normal.tolist()}
    run.case("plane_transform", origin, normal)
    try:
        T = np.asarray(geometry.plane_transform(origin, normal), dtype=np.float64)
    except Exception as e:
        j.exception("fn=plane_transform", e, case)
        return
    if T.shape != (4, 4):
        j.check("fn=plane_transform law=shape_4x4", "not 4x4", float("inf"), 1.0, case)
        return
    j.check("fn=plane_transform law=rigid_proper", "plane_transform is not a proper rigid transform",
            max(rot_defect(T[:3, :3]), dev(T[3], [0, 0, 0, 1])), 1e-12, case)
    un = normal / math.sqrt(float(normal @ normal))
    # points of the plane
    v = rng.normal(size=(6, 3))
    v -= np.outer(v @ un, un)
    pts = origin + np.vstack([np.zeros((1, 3)), v])
    img = apply_ref(T, pts)
    sc = 1.0 + float(np.abs(pts).max())
    j.check("fn=plane_transform law=plane_to_z=0", "points of the plane do not land on z = 0",
            float(np.abs(img[:, 2]).max()), 1e-12 * sc, case)
    j.check("fn=plane_transform law=origin_to_origin_xy", "the plane origin does not map to the origin",
            float(np.abs(img[0]).max()), 1e-12 * sc, case)


def kwargs_case(j, tf, k2m, q, axis, angle, t):
    run = j.run
    case = {"section": "kwargs_to_matrix", "q": list(map(float, q)), "axis": list(map(float, axis)), "angle": angle,
            "translation": list(map(float, t))}
    run.case("kwargs_to_matrix", np.asarray(q, dtype=np.float64), np.asarray(axis, dtype=np.float64), angle, np.asarray(t, dtype=np.float64))
    try:
        Mq = k2m(quaternion=q, translation=t)
        j.check("fn=kwargs_to_matrix route=quaternion law=rotation_and_translation", "quaternion + translation kwargs give another transform",
                dev(Mq, homog(quat_matrix_ref(q), t)), TIGHT, case)
        Ma = k2m(axis=axis, angle=angle, translation=t)
        j.check("fn=kwargs_to_matrix route=axis_angle law=rotation_and_translation", "axis/angle + translation kwargs give another transform",
                dev(Ma, homog(rodrigues_ref(angle, axis), t)), TIGHT, case)
        Mt = k2m(translation=t)
        j.check("fn=kwargs_to_matrix route=translation law=translation_only", "translation kwarg gives another transform",
                dev(Mt, homog(np.eye(3), t)), 0.0, case)
        Mm = k2m(matrix=Ma.tolist(), quaternion=q)
        j.check("fn=kwargs_to_matrix route=matrix law=matrix_returned", "matrix kwarg not returned as given", dev(Mm, Ma), 0.0, case)
    except Exception as e:
        j.exception("fn=kwargs_to_matrix", e, case)


# ------------------------------------------------------------------------------------------
# workload


def signed_permutation_rotations():
    out = []
    for perm in itertools.permutations(range(3)):
        for signs in itertools.product((1, -1), repeat=3):
            R = np.zeros((3, 3))
            for r in range(3):
                R[r, perm[r]] = signs[r]
            if round(np.linalg.det(R)) == 1:
                out.append(R)
    return out


def matrix_input_case(j, tf, R, tag):
    """an exact rotation matrix fed to every matrix -> representation conversion"""
    run = j.run
    M = homog(R)
    case = {"section": "matrix_input", "R": R.tolist(), "class": tag}
    run.case("matrix_input:" + tag, R, nontrivial=not np.array_equal(R, np.eye(3)))
    for axes in AXES_ALL:
        ck = conv_key(axes)
        try:
            a = tf.euler_from_matrix(M, axes)
            # gimbal class from the returned middle angle
            gc = gimbal_class(a[1], axes)
            run.state("euler_convention_x_gimbal_from_matrix", (axes, gc))
            tol = inverse_tol(a[1], axes)
            j.check("fn=euler_from_matrix%s input=%s law=roundtrip_rotation" % (inv_key(axes, gc), tag),
                    "angles from euler_from_matrix generate a different rotation",
                    dev(euler_ref(a[0], a[1], a[2], axes), R), tol, dict(case, axes=axes, returned=list(map(float, a))))
        except Exception as e:
            j.exception("fn=euler_from_matrix %s input=%s" % (ck, tag), e, dict(case, axes=axes))
    for precise in (False, True):
        try:
            q = np.asarray(tf.quaternion_from_matrix(M, isprecise=precise), dtype=np.float64)
            br = qfm_branch(M)
            run.state("quaternion_from_matrix_branch", (precise, br))
            j.check("fn=quaternion_from_matrix isprecise=%s branch=%s law=roundtrip_rotation" % (precise, br if precise else "eigh"),
                    "quaternion_from_matrix describes a different rotation", dev(quat_matrix_ref(q), R), RT,
                    dict(case, isprecise=precise, q=q))
        except Exception as e:
            j.exception("fn=quaternion_from_matrix isprecise=%s input=%s" % (precise, tag), e, case)
    if not np.array_equal(R, np.eye(3)):
        try:
            a2, d2, p2 = tf.rotation_from_matrix(M)
            j.check("fn=rotation_from_matrix point=no input=%s law=roundtrip_transform" % tag,
                    "(angle, axis, point) rebuild a different transform",
                    dev(tf.rotation_matrix(a2, d2, p2), M), RT, dict(case, returned=[float(a2), list(map(float, d2))]))
        except Exception as e:
            j.exception("fn=rotation_from_matrix point=no input=%s" % tag, e, case)


def result_ownership_case(j, tf):
    """
    A conversion called twice with the same (hashable) arguments: the caller edits the first
    result in place (sets a translation, scales the rotation block), the second result must
    still be the conversion of the arguments - results are the caller's, not the library's.
    """
    run = j.run
    angles = (0.3, -1.1, 2.0)
    calls = [("euler_matrix:%s" % ax, lambda ax=ax: tf.euler_matrix(angles[0], angles[1], angles[2], ax))
             for ax in ("sxyz", "rzyx", "szxz", "ryxy")]
    calls += [
        ("quaternion_matrix", lambda: tf.quaternion_matrix((0.5, -0.5, 0.5, 0.5))),
        ("rotation_matrix", lambda: tf.rotation_matrix(0.7, (0.0, 0.6, 0.8))),
        ("rotation_matrix:point", lambda: tf.rotation_matrix(0.7, (0.0, 0.6, 0.8), (1.0, 2.0, 3.0))),
        ("translation_matrix", lambda: tf.translation_matrix((1.0, -2.0, 3.0))),
        ("scale_matrix", lambda: tf.scale_matrix(2.5)),
        ("identity_matrix", lambda: tf.identity_matrix()),
        ("compose_matrix", lambda: tf.compose_matrix(scale=(2.0, 2.0, 2.0), angles=angles, translate=(1.0, 2.0, 3.0))),
        ("quaternion_from_euler", lambda: tf.quaternion_from_euler(angles[0], angles[1], angles[2], "sxyz")),
        ("quaternion_about_axis", lambda: tf.quaternion_about_axis(0.9, (1.0, 0.0, 0.0))),
        ("quaternion_from_matrix", lambda: tf.quaternion_from_matrix(euler_ref(0.3, -1.1, 2.0, "sxyz"))),
        ("planar_matrix", lambda: tf.planar_matrix(offset=(1.0, 2.0), theta=0.4)),
        ("spherical_matrix", lambda: tf.spherical_matrix(0.4, 1.2)),
        ("random_rotation_free:euler_from_matrix", lambda: np.array(tf.euler_from_matrix(euler_ref(0.3, -1.1, 2.0, "sxyz"), "sxyz"))),
    ]
    for name, call in calls:
        case = {"section": "ownership", "fn": name}
        try:
            first = np.asarray(call())
            want = np.array(first, dtype=np.float64, copy=True)
            edited = False
            if isinstance(first, np.ndarray) and first.flags.writeable and first.size:
                first += 1.5  # the caller's own edit of what it was given
                edited = True
            second = np.array(call(), dtype=np.float64, copy=True)
        except Exception as e:
            j.exception("fn=%s law=results_owned_by_caller" % name.split(":")[0], e, case)
            continue
        run.case("ownership:" + name, name, nontrivial=edited)
        j.check("fn=%s law=results_owned_by_caller" % name.split(":")[0],
                "a second call with the same arguments returns a value the caller of the first call has edited",
                dev(second, want), 0.0, case)


def _flat(r):
    if isinstance(r, (tuple, list)):
        return np.concatenate([_flat(x) for x in r]) if len(r) else np.zeros(0)
    return np.asarray(r, dtype=np.float64).ravel()


def repeat_call_case(j, tf, geometry, k2m):
    """
    Round 4.  Every conversion called twice on the SAME argument objects, all arguments being
    ndarrays (scalars - angles, fractions, factors - as 0-d arrays, the way `arr[..., 0]`,
    `np.asarray(x)` or `np.squeeze` hand them out).  The two results must be identical: a conversion
    that edits its arguments converts something else the second time, and the caller's other
    conversions of those objects (euler_matrix of the same three angles ...) no longer describe the
    same rotation.  Twin of results_owned_by_caller.  Whether the arguments were written to is
    recorded (state `arguments_written`), the judged law is the repeat call.
    """
    run = j.run

    def A(x):
        return np.array(x, dtype=np.float64)

    R = euler_ref(0.3, -1.1, 2.0, "sxyz")
    M = homog(R, [1.0, 2.0, 3.0])
    Mn = M.copy()
    Mn[:3, :3] += 1e-9 * np.arange(9).reshape(3, 3)
    q = [0.5, -0.5, 0.5, 0.5]
    q1 = [0.1, 0.7, -0.3, 0.64]
    q2 = [-0.8, 0.1, 0.5, -0.3]  # obtuse to q1: the shortest-path branch negates one end
    P = [[1.0, 2.0, 3.0], [-4.0, 5.5, 0.25]]
    M2 = [[0.8, -0.6, 3.0], [0.6, 0.8, -1.0], [0.0, 0.0, 1.0]]
    calls = []
    for ax in AXES_ALL:
        calls.append(("quaternion_from_euler:" + ax, lambda a, b, c, ax=ax: tf.quaternion_from_euler(a, b, c, ax),
                      lambda: [A(0.4), A(0.5), A(0.6)], "ndarray_0d"))
    for ax in ("sxyz", "rzyx", "szxz", "ryxy"):
        calls.append(("euler_matrix:" + ax, lambda a, b, c, ax=ax: tf.euler_matrix(a, b, c, ax),
                      lambda: [A(0.4), A(0.5), A(0.6)], "ndarray_0d"))
        calls.append(("euler_from_matrix:" + ax, lambda m, ax=ax: tf.euler_from_matrix(m, ax), lambda: [A(M)], "ndarray"))
        calls.append(("euler_from_quaternion:" + ax, lambda x, ax=ax: tf.euler_from_quaternion(x, ax), lambda: [A(q)], "ndarray"))
    calls += [
        ("quaternion_matrix", tf.quaternion_matrix, lambda: [A(q1)], "ndarray"),
        ("quaternion_matrix:nonunit", tf.quaternion_matrix, lambda: [A(q1) * 3.0], "ndarray"),
        ("quaternion_from_matrix:eigh", lambda m: tf.quaternion_from_matrix(m, isprecise=False), lambda: [A(M)], "ndarray"),
        ("quaternion_from_matrix:precise", lambda m: tf.quaternion_from_matrix(m, isprecise=True), lambda: [A(M)], "ndarray"),
        ("quaternion_about_axis", tf.quaternion_about_axis, lambda: [A(0.9), A([1.0, 2.0, -2.0])], "ndarray_0d"),
        ("rotation_matrix", tf.rotation_matrix, lambda: [A(0.7), A([0.0, 3.0, 4.0]), A([1.0, 2.0, 3.0])], "ndarray_0d"),
        ("rotation_from_matrix", tf.rotation_from_matrix, lambda: [A(M)], "ndarray"),
        ("quaternion_multiply", tf.quaternion_multiply, lambda: [A(q1), A(q2)], "ndarray"),
        ("quaternion_conjugate", tf.quaternion_conjugate, lambda: [A(q1)], "ndarray"),
        ("quaternion_inverse", tf.quaternion_inverse, lambda: [A(q1) * 2.0], "ndarray"),
        ("quaternion_slerp:shortest", lambda a, b, f: tf.quaternion_slerp(a, b, f), lambda: [A(q1), A(q2), A(0.3)], "ndarray_0d"),
        ("quaternion_slerp:long", lambda a, b, f: tf.quaternion_slerp(a, b, f, 0, False), lambda: [A(q1) * 2.0, A(q2), A(0.3)], "ndarray_0d"),
        ("compose_matrix", tf.compose_matrix,
         lambda: [A([2.0, 0.5, 3.0]), A([0.3, -0.4, 0.9]), A([0.3, -1.1, 2.0]), A([1.0, 2.0, 3.0])], "ndarray"),
        ("decompose_matrix", tf.decompose_matrix, lambda: [A(M) * np.array([[2.0], [2.0], [2.0], [1.0]])], "ndarray"),
        ("transform_points:3d", tf.transform_points, lambda: [A(P), A(M)], "ndarray"),
        ("transform_points:2d", tf.transform_points, lambda: [A(P)[:, :2].copy(), A(M2)], "ndarray"),
        ("transform_around:3d", tf.transform_around, lambda: [A(homog(R)), A([1.0, 2.0, 3.0])], "ndarray"),
        ("transform_around:2d", tf.transform_around, lambda: [A(M2), A([4.0, -1.0])], "ndarray"),
        ("planar_matrix", lambda o, t, pt, sc: tf.planar_matrix(offset=o, theta=t, point=pt, scale=sc),
         lambda: [A([1.0, 2.0]), A(0.4), A([3.0, -1.0]), A(2.0)], "ndarray_0d"),
        ("planar_matrix_to_3D", tf.planar_matrix_to_3D, lambda: [A(M2)], "ndarray"),
        ("scale_and_translate", lambda sc, t: tf.scale_and_translate(scale=sc, translate=t),
         lambda: [A([1.0, 2.0, 3.0]), A([0.5, 0.0, -7.0])], "ndarray"),
        ("translation_matrix", tf.translation_matrix, lambda: [A([1.0, -2.0, 3.0])], "ndarray"),
        ("scale_matrix", tf.scale_matrix, lambda: [A(2.5), A([1.0, 0.0, 2.0])], "ndarray_0d"),
        ("is_rigid", tf.is_rigid, lambda: [A(M)], "ndarray"),
        ("fix_rigid", tf.fix_rigid, lambda: [A(Mn)], "ndarray"),
        ("align_vectors", geometry.align_vectors, lambda: [A([1.0, 2.0, 3.0]), A([-2.0, 0.5, 1.0])], "ndarray"),
        ("plane_transform", geometry.plane_transform, lambda: [A([1.0, 2.0, 3.0]), A([-2.0, 0.5, 1.0])], "ndarray"),
        ("kwargs_to_matrix:quaternion", lambda x, t: k2m(quaternion=x, translation=t), lambda: [A(q1), A([1.0, 2.0, 3.0])], "ndarray"),
        ("kwargs_to_matrix:axis_angle", lambda ax, an, t: k2m(axis=ax, angle=an, translation=t),
         lambda: [A([0.0, 3.0, 4.0]), A(0.7), A([1.0, 2.0, 3.0])], "ndarray_0d"),
    ]
    for name, fn, factory, kind in calls:
        case = {"section": "repeat_call", "fn": name}
        fname = name.split(":")[0]
        k = "fn=%s args=%s law=repeat_call_same_result" % (fname, kind)
        args = factory()
        snap = [a.copy() for a in args]
        try:
            first = _flat(fn(*args)).copy()
            second = _flat(fn(*args)).copy()
        except Exception as e:
            j.exception(k, e, case)
            continue
        written = any(not np.array_equal(a, b) for a, b in zip(args, snap))
        run.case("repeat_call:" + name, name)
        run.state("arguments_written", (fname, written))
        j.check(k, "the second call on the same argument objects returns another result: the first call wrote to its arguments",
                dev(second, first), 0.0, dict(case, arguments_before=snap, arguments_after=args, first=first, second=second))


def good_axis(rng):
    """unit-ish axis whose components are 0 or >= 0.05 (rotation_from_matrix divides by a component
    it compares with 1e-8; the generator stays far from that threshold)"""
    while True:
        v = rng.normal(size=3)
        v[np.abs(v) < 0.05 * np.linalg.norm(v)] = 0.0
        if np.linalg.norm(v) > 0.3:
            return v * float(rng.choice([0.5, 1.0, 3.0]))


def workload(run):
    import trimesh  # noqa
    from trimesh import geometry
    from trimesh import transformations as tf
    from trimesh.scene.transforms import kwargs_to_matrix

    from vmon.gen import matrix as gmat

    rng = run.rng
    j = J(run)
    quick = run.tier == "quick"
    idx = 0

    # ---- tables
    euler_table_check(j, tf)
    result_ownership_case(j, tf)
    repeat_call_case(j, tf, geometry, kwargs_to_matrix)

    # ---- exact matrices: the 24 cube rotations (every one is a gimbal case for some convention)
    for R in signed_permutation_rotations():
        idx += 1
        if run.mine(idx):
            matrix_input_case(j, tf, R, "signed_permutation")

    # ---- quaternions: integer lattice
    lattice = [q for q in itertools.product(range(-3, 4), repeat=4) if any(q)]
    step = 7 if quick else 1
    for n, q in enumerate(lattice):
        if n % step:
            continue
        idx += 1
        if not run.mine(idx):
            continue
        quaternion_case(j, tf, q, "int")
        matrix_input_case(j, tf, quat_matrix_ref(np.array(q, dtype=np.float64)), "rational") if n % (step * 5) == 0 else None
    for _ in range(60 if quick else 600):
        q = rng.normal(size=4)
        quaternion_case(j, tf, q / np.linalg.norm(q), "unit_random")
        quaternion_case(j, tf, q * float(rng.choice([1e-3, 7.0, 1e3])), "scaled")
        # one component dominant
        e = np.zeros(4)
        e[int(rng.integers(4))] = float(rng.choice([-1, 1]))
        quaternion_case(j, tf, e + rng.normal(size=4) * 1e-4, "dominant")
    for _ in range(200 if quick else 3000):
        q1 = rng.integers(-4, 5, size=4).astype(np.float64)
        q0 = rng.integers(-4, 5, size=4).astype(np.float64)
        if not q1.any() or not q0.any():
            continue
        quaternion_pair_case(j, tf, q1, q0)
        quaternion_pair_case(j, tf, rng.normal(size=4), rng.normal(size=4))
        for f in (0.0, 0.25, 0.5, 0.9, 1.0):
            for sp in (True, False):
                slerp_case(j, tf, q1, q0, f, sp)
                slerp_case(j, tf, rng.normal(size=4), rng.normal(size=4), f, sp)

    # ---- axis-angle
    angle_grid = [0.0, PI / 2, -PI / 2, PI, -PI, 2 * PI, 1e-9, PI - 1e-9, 0.3, -1.1, 2.5, 4.0]
    axes_fixed = [np.array(v, dtype=np.float64) for v in
                  ([1, 0, 0], [0, 1, 0], [0, 0, 1], [-1, 0, 0], [0, 0, -2], [1, 1, 0], [0, 1, -1], [1, 0, 1], [1, 2, 3], [-2, 1, -0.5])]
    for ax in axes_fixed + [good_axis(rng) for _ in range(6 if quick else 40)]:
        for ang in angle_grid + [float(rng.uniform(-7, 7))]:
            idx += 1
            if not run.mine(idx):
                continue
            about_axis_case(j, tf, ang, ax)
            for pt in (None, [1.0, 0.0, 0.0], rng.uniform(-5, 5, size=3), [100.0, -200.0, 50.0]):
                axis_angle_case(j, tf, ang, ax, pt)
    # round 4: small angles (both sides of the library's absolute 1e-8 eigenvalue window = 1.4e-4 rad,
    # down to 1e-9) and angles next to pi x axes of every shape: filtered, unfiltered random, and with
    # one or two components 1e-9 .. 1e-3 of the others (both sides of the code's 1e-8 component switch)
    angle_small = [1e-3, 1.5e-4, 1.3e-4, 1e-4, 1e-5, 1e-6, 1e-7, 1e-8, 1e-9, -1e-5, -1e-7, 2 * PI - 1e-5,
                   PI - 1e-5, PI - 1e-7, -PI + 1e-6]

    def small_component_axis():
        v = rng.normal(size=3)
        v[np.abs(v) < 0.3] = 0.3
        k = int(rng.integers(3))
        v[k] = float(rng.choice([-1, 1])) * 10.0 ** -int(rng.choice([3, 5, 7, 8, 9])) * float(rng.uniform(1, 9))
        if rng.random() < 0.3:
            v[(k + 1) % 3] = float(rng.choice([-1, 1])) * 10.0 ** -int(rng.choice([7, 8, 9])) * float(rng.uniform(1, 9))
        return v

    n_ax = 4 if quick else 30
    # fixed ones first (keys must not depend on the seed): the last component just above the code's 1e-8
    # switch, or below it with the middle one just above
    small_fixed = [np.array(v, dtype=np.float64) for v in
                   ([1.0, 1.43, 5e-8], [-0.3, 0.9, 2e-7], [1.0, 6e-8, 0.0], [1.0, 3e-7, 2e-9], [2e-9, -1.0, 0.5])]
    shaped = (axes_fixed[:3] + axes_fixed[8:] + small_fixed + [good_axis(rng) for _ in range(n_ax)] + [rng.normal(size=3) for _ in range(n_ax)]
              + [small_component_axis() for _ in range(2 * n_ax)])
    for a_n, ax in enumerate(shaped):
        sm = axis_shape_class(ax) == "small_component"
        for ang in angle_small + ([0.3, -1.1, 2.5, PI, PI / 2, float(rng.uniform(-7, 7))] if sm else []):
            idx += 1
            if not run.mine(idx):
                continue
            for pt in (None, rng.uniform(-5, 5, size=3), rng.uniform(-500, 500, size=3)):
                axis_angle_case(j, tf, ang, ax, pt)
    # round 4: the axis as a vector of any length (both functions normalise it themselves)
    for scale in (1e-8, 1e-12, 1e-15, 3e-16, 1e-16, 1e-20, 1e-100, 1e8, 1e20, 1e100):
        for ax in axes_fixed[:2] + axes_fixed[5:6] + axes_fixed[8:] + [good_axis(rng) for _ in range(2 if quick else 20)]:
            for ang in (0.3, PI / 2, -2.5, PI):
                idx += 1
                if not run.mine(idx):
                    continue
                about_axis_case(j, tf, ang, ax * scale)
                axis_angle_case(j, tf, ang, ax * scale, None)
                axis_angle_case(j, tf, ang, ax * scale, [1.0, -2.0, 0.5])
    # round 4: the point as an array of unsigned / signed / float32 dtype or a list of ints
    for form in INT_FORMS:
        for _ in range(3 if quick else 30):
            axis_angle_case(j, tf, float(rng.uniform(-3, 3)), good_axis(rng), int_point(rng, 3, form), pform=form)
    for d in (2, 3):
        for tag, M in gmat.matrices(rng, dim=d):
            if tag.startswith("near_identity") and not tag.endswith(("1e-07", "1e-05")):
                continue
            for pt in (np.zeros(d), rng.uniform(-5, 5, size=d), np.array([100.0, -20.0, 3.0][:d])):
                transform_around_case(j, tf, M, pt)
                L = M.copy()
                L[:d, d] = 0
                transform_around_case(j, tf, L, pt)
            if tag.split(":")[0] in ("rigid", "similarity", "mirror_rot", "aniso_rot", "shear"):
                L = M.copy()
                L[:d, d] = 0
                for form in INT_FORMS:
                    transform_around_case(j, tf, L, int_point(rng, d, form), form)
                    transform_around_case(j, tf, M, int_point(rng, d, form), form)

    # ---- compose / decompose
    scales = [(1, 1, 1), (2, 0.5, 3), (0.3, 0.3, 0.3), (-1, -1, -1), (-2, -0.5, -3), (-1, 2, 3), (1, -2, 0.5), (-1, -2, 3), (1.5, 2, -0.7)]
    shears = [(0, 0, 0), (0.5, 0, 0), (0, -0.7, 0), (0, 0, 1.2), (0.3, -0.4, 0.9)]
    ang_sets = [(0, 0, 0), (0.3, -1.1, 2.5), (1, 1.2, -3), (0.4, PI / 2, 0.0), (0.4, -PI / 2, 0.0), (0.7, PI / 2 - 1e-9, -0.2),
                (-2.0, -PI / 2 + 1e-9, 0.9), (PI, 0.2, -PI / 2), (0.1, PI / 2 - 1e-3, 0.2), (3.0, 2.0, 1.0), (-3.0, -1.4, 3.1)]
    # round 4: a ladder of distances from the gimbal configuration (1e-9 and 1e-3 are above)
    for dlt in (3e-15, 1e-13, 1e-11, 1e-7, 1e-5):
        ang_sets += [(0.7, PI / 2 - dlt, -0.2), (-2.0, -PI / 2 + dlt, 0.9), (2.9, PI / 2 + dlt, 1.3)]
    for sc, sh, an in itertools.product(scales, shears, ang_sets):
        idx += 1
        if not run.mine(idx):
            continue
        compose_case(j, tf, sc, sh, an, rng.integers(-9, 10, size=3).astype(np.float64))
    for _ in range(300 if quick else 5000):
        sc = rng.uniform(0.2, 5, size=3) * (rng.choice([-1, 1], size=3) if rng.random() < 0.5 else float(rng.choice([-1, 1])))
        sh = rng.uniform(-1.5, 1.5, size=3) * (rng.random(3) < 0.7)
        an = tuple(float(x) for x in rng.uniform(-PI, PI, size=3))
        compose_case(j, tf, sc, sh, an, rng.uniform(-10, 10, size=3))

    # ---- transform_points
    for d in (2, 3):
        clouds = [rng.uniform(-10, 10, size=(7, d)), rng.integers(-5, 6, size=(4, d)).astype(np.float64),
                  rng.uniform(-1, 1, size=(1, d)) * 1e3, np.zeros((0, d))]
        for tag, M in gmat.matrices(rng, dim=d):
            for P in clouds:
                for tr in (True, False):
                    points_case(j, tf, P, M, tag, tr)
            points_case(j, tf, clouds[1], M, tag, True, "list")
            points_case(j, tf, clouds[1], M, tag, False, "tuple")
            # round 4: integer-valued clouds in the dtypes image / voxel / index code hands over
            for form in ("uint8", "uint16", "uint64", "int8", "int32", "float32"):
                Pi = rng.integers(0, 100, size=(3, d)).astype(np.float64)
                if form.startswith("int"):
                    Pi -= 50.0
                    Pi[0, 0] = float(np.iinfo(form).min) if form == "int8" else Pi[0, 0]
                points_case(j, tf, Pi, M, tag, bool(rng.integers(2)), form)

    # ---- planar helpers
    conv = {}
    P3 = rng.uniform(-5, 5, size=(5, 3))
    for theta in [None, 0.0, PI / 2, -PI / 2, PI, 0.3, -1.1, 2.5, 1e-9, 7.0]:
        for offset in (None, [10.0, -10.0], [0.5, 0.25]):
            for point in (None, [1.0, 2.0], [-30.0, 4.5]):
                for scale in (None, 2.0, 0.25):
                    M2 = planar_case(j, tf, offset, theta, point, scale, conv)
                    if M2 is not None and scale is None:
                        planar3d_case(j, tf, M2, P3)
    # round 4: the point (and the offset) of unsigned / signed / float32 dtype or a list of ints
    for form in INT_FORMS:
        for theta in (PI / 6, -1.1, PI, 2.5):
            for with_offset in (False, True):
                pt = list(map(float, int_point(rng, 2, form)))
                off = list(map(float, int_point(rng, 2, form))) if with_offset else None
                planar_case(j, tf, off, theta, pt, None, conv, pform=form)
    for tag, M in gmat.matrices(rng, dim=2):
        planar3d_case(j, tf, M, P3)
    for scale in (1, 1.0, 2.0, 0.5, -1.5, [1, 2, 3], [0.5, 1.0, -2.0], np.array([1.0, 1.0, 1.0])):
        for translate in (None, 0.0, 2.5, [1, -2, 3], np.array([0.5, 0.0, -7.0])):
            scale_translate_case(j, tf, scale, translate, P3)

    # ---- rigid helpers
    for tag, M in gmat.matrices(rng, dim=3):
        cls = tag.split(":")[0]
        if cls == "near_identity":
            cls = "near_identity_" + tag.split(":")[1]
        rigid_case(j, tf, M, cls, rng)
    for _ in range(40 if quick else 400):
        R = quat_matrix_ref(rng.normal(size=4))
        M = homog(R, rng.uniform(-5, 5, size=3))
        rigid_case(j, tf, M, "rigid", rng)
        for noise in (0.0, 1e-9, 1e-7, 1e-3):
            fix_rigid_case(j, tf, M, noise, 3, rng)
        a = float(rng.uniform(-PI, PI))
        M2 = homog(np.array([[math.cos(a), -math.sin(a)], [math.sin(a), math.cos(a)]]), rng.uniform(-5, 5, size=2))
        for noise in (0.0, 1e-9, 1e-7, 1e-3):
            fix_rigid_case(j, tf, M2, noise, 2, rng)

    # ---- align_vectors / plane_transform / kwargs
    stats = {"n": 0, "differs_from_angle_between": 0}
    units = [np.array(v, dtype=np.float64) for v in ([1, 0, 0], [0, 1, 0], [0, 0, 1], [-1, 0, 0], [0, -1, 0], [0, 0, -1])]
    for a in units:
        for b in units:
            align_case(j, geometry, a, b, "parallel" if np.array_equal(a, b) else ("antiparallel" if np.array_equal(a, -b) else "axis"), stats)
    for _ in range(150 if quick else 3000):
        a = rng.normal(size=3)
        b = rng.normal(size=3)
        ua, ub = a / np.linalg.norm(a), b / np.linalg.norm(b)
        align_case(j, geometry, ua, ub, "random_unit", stats)
        align_case(j, geometry, ua, ua.copy(), "parallel", stats)
        align_case(j, geometry, ua, -ua, "antiparallel", stats)
        align_case(j, geometry, a * 3.0, b * 0.2, "random_nonunit", stats)
        tiny = ua + rng.normal(size=3) * 1e-7
        align_case(j, geometry, ua, tiny / np.linalg.norm(tiny), "nearly_parallel", stats)
        align_case(j, geometry, ua, -tiny / np.linalg.norm(tiny), "nearly_antiparallel", stats)
        plane_case(j, geometry, rng.uniform(-10, 10, size=3), a, rng)
        plane_case(j, geometry, rng.integers(-3, 4, size=3).astype(np.float64), units[int(rng.integers(6))], rng)
        kwargs_case(j, tf, kwargs_to_matrix, rng.normal(size=4), good_axis(rng), float(rng.uniform(-7, 7)), rng.uniform(-5, 5, size=3))
    run.note("align_vectors_returned_angle_not_judged", stats)
    run.note("planar_matrix_theta_sense_not_judged", conv.get("sense"))

    # ---- round 4: ladder of distances from every gimbal configuration x 24 conventions (1e-9 is in
    # the grid below).  The smallest step stays 3x above the code's 4 eps switch so that the class of
    # a case (and with it the key) does not depend on which side a rounding puts it.
    run.note("elapsed_before_gimbal_ladder", round(run.elapsed(), 1))
    ladder = [3e-15, 1e-14, 1e-13, 1e-12, 1e-10, 1e-8, 1e-7, 1e-6]
    pairs = [(0.3, -1.1), (2.0, -0.4), (-2.5, 3.0)]
    for a_i, axes in enumerate(AXES_ALL):
        rep = axes[1] == axes[3]
        for base in ([0.0, PI, -PI] if rep else [PI / 2, -PI / 2]):
            for sgn in (1.0, -1.0):
                for dlt in ladder:
                    idx += 1
                    if not run.mine(idx):
                        continue
                    for (ai, ak) in pairs + [tuple(float(x) for x in rng.uniform(-PI, PI, size=2))]:
                        aj = base + sgn * dlt
                        run.state("gimbal_ladder", (axes, dlt))
                        euler_case(j, tf, axes, "string" if (a_i + int(sgn)) % 2 else "tuple", ai, aj, ak)

    # ---- Euler conventions x angle grid (the bulk; sharded by enumeration index)
    run.note("elapsed_before_euler_grid", round(run.elapsed(), 1))
    ai_grid = AI_GRID_QUICK if quick else AJ_GRID
    done = 0
    total = 0
    cut = False
    # triples outermost, conventions innermost: a run cut short by its budget has still put every
    # convention through the same (gimbal-first) prefix of the grid
    for n, (aj, ai, ak) in enumerate(itertools.product(AJ_GRID, ai_grid, ai_grid)):
        for a_i, axes in enumerate(AXES_ALL):
            total += 1
            idx += 1
            if not run.mine(idx):
                continue
            if run.out_of_time(0.93):
                cut = True
                continue
            euler_case(j, tf, axes, "string" if (n + a_i) % 2 == 0 else "tuple", ai, aj, ak)
            done += 1
    run.count("euler_grid_cases", done)
    run.note("elapsed_after_euler_grid", round(run.elapsed(), 1))
    if cut:
        run.count("euler_grid_cut_short")
        if quick:
            # a quick run that cannot finish the enumerated grid has not covered every convention
            run.inconclusive("Euler grid not completed within the budget (%d of %d)" % (done, total))
    # random triples on top
    while not run.out_of_time(0.97) and (not quick or done < 42000):
        axes = AXES_ALL[int(rng.integers(24))]
        ai, aj, ak = (float(x) for x in rng.uniform(-2 * PI, 2 * PI, size=3))
        euler_case(j, tf, axes, "string" if rng.random() < 0.5 else "tuple", ai, aj, ak)
        done += 1
    run.note("worst_deviation_over_tolerance_by_function", {k: float("%.3g" % v) for k, v in sorted(j.worst.items())})


def replay(run, case):
    from trimesh import geometry
    from trimesh import transformations as tf
    from trimesh.scene.transforms import kwargs_to_matrix

    j = J(run)
    rng = np.random.default_rng(0)
    sec = case.get("section")
    if sec == "euler":
        euler_case(j, tf, case["axes"], case.get("form", "string"), *case["angles"])
    elif sec == "table":
        euler_table_check(j, tf)
    elif sec == "ownership":
        result_ownership_case(j, tf)
    elif sec == "repeat_call":
        repeat_call_case(j, tf, geometry, kwargs_to_matrix)
    elif sec == "quaternion":
        quaternion_case(j, tf, case["q"], case.get("class", "int"))
    elif sec == "quaternion_pair":
        quaternion_pair_case(j, tf, case["q1"], case["q0"])
    elif sec == "slerp":
        slerp_case(j, tf, case["q0"], case["q1"], case["fraction"], case["shortestpath"])
    elif sec == "about_axis":
        about_axis_case(j, tf, case["angle"], case["axis"])
    elif sec == "axis_angle":
        axis_angle_case(j, tf, case["angle"], case["axis"], case["point"], case.get("point_form"))
    elif sec == "transform_around":
        transform_around_case(j, tf, np.array(case["matrix"]), np.array(case["point"]), case.get("point_form"))
    elif sec == "compose":
        compose_case(j, tf, case["scale"], case["shear"], tuple(case["angles"]), case["translate"])
    elif sec == "transform_points":
        P = np.array(case["points"], dtype=np.float64).reshape(-1, len(case["matrix"]) - 1)
        points_case(j, tf, P, np.array(case["matrix"]), case["class"], case["translate"], case.get("container", "ndarray"))
    elif sec == "planar":
        planar_case(j, tf, case["offset"], case["theta"], case["point"], case["scale"], {}, case.get("point_form"))
    elif sec == "planar_to_3D":
        planar3d_case(j, tf, np.array(case["matrix"]), rng.uniform(-5, 5, size=(5, 3)))
    elif sec == "scale_and_translate":
        scale_translate_case(j, tf, case["scale"], case["translate"], rng.uniform(-5, 5, size=(5, 3)))
    elif sec == "rigid":
        rigid_case(j, tf, np.array(case["matrix"]), case["class"], rng)
    elif sec == "fix_rigid":
        fix_rigid_case(j, tf, np.array(case["matrix"]), 0.0, case["dim"], rng)
    elif sec == "align_vectors":
        align_case(j, geometry, case["a"], case["b"], case["class"], {"n": 0, "differs_from_angle_between": 0})
    elif sec == "plane_transform":
        plane_case(j, geometry, case["origin"], case["normal"], rng)
    elif sec == "kwargs_to_matrix":
        kwargs_case(j, tf, kwargs_to_matrix, case["q"], case["axis"], case["angle"], case["translation"])
    elif sec == "matrix_input":
        matrix_input_case(j, tf, np.array(case["R"]), case["class"])
