"""
C20 - loading arbitrary or corrupted bytes terminates with a clean outcome.

Monitor shape: fault injection + process monitor.  Valid files (every exporter's output on small
generated geometry + small bundled models) are mutated by enumerated fault operators
(truncation at every length / structural offsets, byte substitutions, field-aware u32/u16 and
decimal-token inflation, chunk delete / duplicate / swap, splices, arbitrary noise) or replaced by
well-formed files of the same format in which one structural dimension is scaled up (G-grown,
vmon/gen/grown.py: instance graphs as chain / diamond / ring / loop / fan, records of one kind,
the length of one line, the shape of the name repeated records share), and loaded
by the real loaders inside child processes (vmon/child_load.py) that watch: interpreter
survival (exit status / signal / faulthandler), CPU seconds against a bound linear in the
input size, memory (RLIMIT_AS cap linear in the input size + peak RSS growth), the exception
class, and every file object opened while the loader ran (strong references + /proc/self/fd).
"""

from __future__ import annotations

import io
import json
import os
import shutil
import signal
import subprocess
import sys
import tempfile
import time

import numpy as np

PROP = "C20"
CLOCK = "wall"  # the parent waits for child processes: its own CPU time says nothing
LEVEL = "fault_enumeration"
RULE = (
    "cases = (seed file, fault operator with parameters, loader entry point load/load_mesh/load_scene/"
    "load_path, via file object or via path).  Seeds: output of every mesh/scene/path/voxel exporter on "
    "small generated geometry plus small bundled models per registered extension.  Operators: valid, "
    "truncate (every length for files <= 8 KiB in thorough, strided + structural offsets in quick), "
    "single-byte substitution by {00,FF,80,^01,^80}, u32/u16 field overwrite with "
    "{7FFFFFFF,80000000,FFFFFFFF,00FFFFFF} at every offset of the first 512 bytes (strided in quick), "
    "decimal-token inflation/sign/nan/inf in text headers, one line removed, one `#id = ENTITY(...);` record of an "
    "ISO 10303-21 file removed / one entity name replaced by another (dangling, duplicate, ill-typed references), "
    "chunk delete/duplicate/swap, splices of two "
    "seeds, random / ascii / prefix+noise strings, multi-byte corruption; grow = a well-formed file of the "
    "format with ONE structural dimension scaled (instance graph chain/diamond/ring/loop/fan rendered as 3MF "
    "components, glTF nodes, 3DXML instances, COLLADA instance_node; nested XAML visuals / SVG groups; entries "
    "of an SVG transform list; records of one kind: buffer views, accessors, nodes, meshes, materials, "
    "primitives, usemtl / o / g groups, PLY list / scalar properties and elements, DXF entities / layers / "
    "inserts / polyline vertices, SVG paths / segments / sub-paths / arcs, STL solids, polygon corners; the "
    "length of one line: DXF comment / layer / text, OBJ / OFF comment, STL name; the SHAPE of the name that "
    "repeated records share - plain, ending in _<int> / _<zero padded int> / _<int beyond the record count> / "
    "digits / _<text> / _, empty, long - for OBJ objects, STL solids, glTF nodes / meshes / primitives / "
    "materials, 3MF objects / build items, primitives of one COLLADA geometry: `<family>@<shape>`), sizes per tier in "
    "grown.FAMILIES, judged against the same linear bounds.  distinct = distinct "
    "(loader, entry, via, operator, parameters, seed); non-trivial = the mutated bytes differ from the "
    "valid seed (op != valid)."
)
ANCHORS = [
    "trimesh/exchange/load.py:load_scene",
    "trimesh/exchange/load.py:_load_compressed",
    "trimesh/exchange/load.py:_parse_file_args",
    "trimesh/exchange/stl.py:load_stl_binary",
    "trimesh/exchange/stl.py:load_stl_ascii",
    "trimesh/exchange/ply.py:_parse_header",
    "trimesh/exchange/ply.py:_ply_binary",
    "trimesh/exchange/ply.py:_ply_ascii",
    "trimesh/exchange/gltf.py:load_glb",
    "trimesh/exchange/threemf.py:load_3MF",
    "trimesh/util.py:decompress",
    "trimesh/path/exchange/load.py:load_path",
    "trimesh/path/exchange/dxf.py:load_dxf",
    "trimesh/path/exchange/svg_io.py:svg_to_path",
    "trimesh/exchange/obj.py:load_obj",
    "trimesh/exchange/off.py:load_off",
    "trimesh/exchange/binvox.py:load_binvox",
]
SHARDS = {"quick": 1, "thorough": 1}  # this module runs its own pool of child processes
BUDGET = {"quick": 50, "thorough": 900}
MIN_EVENTS = {"quick": 3000, "thorough": 50000}
ASSUMPTIONS = [
    "bounds: CPU <= 5 s + 2e-5 s/byte; address space growth <= max(256 MiB, 400 B/byte) (RLIMIT_AS, "
    "an allocation failure under the cap is the 'out of proportion' event); peak RSS growth <= 64 MiB + 200 B/byte",
    "grown files (vmon/gen/grown.py) are judged by the same bounds; their CPU interrupt is at 1.2x the bound instead of "
    "1.5x; sizes are chosen so that a loader that is linear with a large constant (10 KB per instance, 17 us per byte) "
    "stays below half of a bound; zip containers are written uncompressed so that the bytes of the file are the bytes to parse",
    "a file object that is still open after the loader returned or raised counts as leaked even if "
    "reference counting would close it later (the monitor holds a strong reference on purpose)",
    "third-party parsers reached through registered loaders (meshio, cascadio, openctm, lxml, collada) are in scope "
    "as far as survival/CPU/memory go",
    "the address-space cap of the step loader is 16 GiB (native thread pool: stacks and malloc arenas are reserved, not "
    "used); its memory is judged by peak RSS growth only",
]

HERE = os.path.dirname(os.path.dirname(os.path.dirname(os.path.abspath(__file__))))
NCHILD = int(os.environ.get("VERIF_C20_CHILDREN", "14"))
CASES_PER_CHILD = 400
GROW_PER_CHILD = 7
HEAVY_SLOTS = max(2, (2 * NCHILD) // 3)
# OpenCASCADE (step, stp) starts a pool of ~3 threads per core; every thread reserves 8 MiB of stack and a
# 64 MiB malloc arena of ADDRESS SPACE: under the 256 MiB cap the unmodified bundled model hangs or
# dies inside the native library (measured: +256 MiB hang, +1 GiB silent exit, +4 GiB loads in 0.23 s
# with 46 threads).  That is the cap, not the loader: its address-space term is 16 GiB; memory that
# is really used is still bounded by the peak RSS growth.
AS_BASE_NATIVE_THREADS = {"step": 16 * 2**30, "stp": 16 * 2**30}
LIMITS = {
    # CPU seconds measured in a child that shares the machine with 13 others: cache and memory
    # bandwidth contention can double it, so the constant term is generous; a hang is
    # interrupted at 1.5x the bound
    "cpu_base": 5.0, "cpu_per_byte": 2e-5,
    "as_base": 256 * 2**20, "as_per_byte": 400,
    "rss_base": 64 * 2**20, "rss_per_byte": 200,
}


# ----------------------------------------------------------------------------
# seeds


def build_seeds(run):
    import trimesh

    seeds = []

    def add(sid, ext, data, entries=("load",), companions=None, **flags):
        if isinstance(data, str):
            data = data.encode()
        # companions: other files the model names (material library, texture, buffer); they are
        # written next to the model whenever it is loaded by name
        seeds.append({"id": sid, "ext": ext, "data": bytes(data), "entries": list(entries),
                      "companions": {k: bytes(v if isinstance(v, bytes) else str(v).encode()) for k, v in (companions or {}).items()}, **flags})

    # G-grown: one seed per format stands for its families of scaled files; the seed itself is the
    # smallest member of the first family (it is what the children load to warm up)
    from vmon.gen import grown

    for ext, fams in grown.FAMILIES.items():
        entries = ("load", "load_mesh", "load_scene") if ext in grown.MESH_EXT else ("load", "load_path")
        add("grown:" + ext, ext, grown.make(ext, fams[0][0], 3), entries, grown=True)

    ico = trimesh.creation.icosphere(subdivisions=0)
    ico.visual.face_colors = np.tile([200, 100, 50, 255], (len(ico.faces), 1)).astype(np.uint8)
    box = trimesh.creation.box(extents=[1, 2, 3])
    scene = trimesh.Scene()
    scene.add_geometry(box, node_name="a", geom_name="box")
    scene.add_geometry(ico, node_name="b", geom_name="ico", transform=trimesh.transformations.translation_matrix([3, 0, 0]))
    mesh_entries = ("load", "load_mesh", "load_scene")
    for ft, kw in [
        ("stl", {}), ("stl_ascii", {}), ("ply", {}), ("ply", {"encoding": "ascii"}), ("off", {}),
        ("obj", {}), ("glb", {}), ("3mf", {}), ("dae", {}),
    ]:
        try:
            data = ico.export(file_type=ft, **kw)
            name = ft + ("_ascii" if kw.get("encoding") == "ascii" else "")
            add("export:" + name, ft, data, mesh_entries)
        except Exception as e:
            run.skip("seed export failed %s: %s" % (ft, type(e).__name__))
    try:
        add("export:scene_glb", "glb", scene.export(file_type="glb"), ("load", "load_scene"))
        add("export:scene_3mf", "3mf", scene.export(file_type="3mf"), ("load", "load_scene"))
    except Exception as e:
        run.skip("scene seed failed: %s" % type(e).__name__)
    try:
        # an assembly: frames below frames (3MF components, glTF child nodes)
        nested = trimesh.Scene()
        nested.add_geometry(box, node_name="a", geom_name="box")
        nested.add_geometry(ico, node_name="b", geom_name="ico", parent_node_name="a",
                            transform=trimesh.transformations.translation_matrix([3, 0, 0]))
        nested.add_geometry(ico, node_name="c", geom_name="ico", parent_node_name="b",
                            transform=trimesh.transformations.translation_matrix([0, 2, 0]))
        add("export:nested_3mf", "3mf", nested.export(file_type="3mf"), ("load", "load_scene"))
        add("export:nested_glb", "glb", nested.export(file_type="glb"), ("load", "load_scene"))
    except Exception as e:
        run.skip("nested scene seed failed: %s" % type(e).__name__)
    # files that name other files
    add("made:obj_mtllib", "obj",
        b"mtllib model.mtl\nusemtl m\nv 0 0 0\nv 1 0 0\nv 0 1 0\nvt 0 0\nvt 1 0\nvt 0 1\nf 1/1 2/2 3/3\n", ("load", "load_scene"))
    try:
        # a model made of several files: OBJ + material library + texture image
        from PIL import Image

        bio = io.BytesIO()
        Image.fromarray(np.arange(48, dtype=np.uint8).reshape(4, 4, 3), "RGB").save(bio, format="PNG")
        add("made:obj_mtl_png", "obj",
            b"mtllib model.mtl\nusemtl m\nv 0 0 0\nv 1 0 0\nv 0 1 0\nvt 0 0\nvt 1 0\nvt 0 1\nf 1/1 2/2 3/3\n",
            ("load", "load_scene", "load_mesh"),
            companions={"model.mtl": b"newmtl m\nKd 0.5 0.5 0.5\nmap_Kd tex.png\n", "tex.png": bio.getvalue()})
    except Exception as e:
        run.skip("multi-file obj seed failed: %s" % type(e).__name__)
    try:
        files = scene.export(file_type="gltf")
        add("export:gltf_files", "gltf", files["model.gltf"], ("load", "load_scene"),
            companions={k: v for k, v in files.items() if k != "model.gltf"})
        add("export:gltf_zip", "zip", trimesh.util.compress(files), ("load", "load_scene"))
        add("export:gltf_json_only", "gltf", files["model.gltf"], ("load",))
    except Exception as e:
        run.skip("gltf seed failed: %s" % type(e).__name__)
    try:
        add("export:zip_stl_obj", "zip", trimesh.util.compress({"a.stl": ico.export(file_type="stl"), "b.obj": box.export(file_type="obj")}),
            ("load", "load_scene"))
    except Exception as e:
        run.skip("zip seed failed: %s" % type(e).__name__)
    try:
        import tarfile

        bio = io.BytesIO()
        with tarfile.open(fileobj=bio, mode="w:gz") as tf:
            payload = ico.export(file_type="stl")
            info = tarfile.TarInfo("a.stl")
            info.size = len(payload)
            tf.addfile(info, io.BytesIO(payload))
        add("made:tar_gz", "tar.gz", bio.getvalue(), ("load",))
    except Exception as e:
        run.skip("tar seed failed: %s" % type(e).__name__)
    try:
        pc = trimesh.PointCloud(np.arange(30.0).reshape(10, 3) * 0.37, colors=np.tile([1, 2, 3, 255], (10, 1)))
        add("export:xyz", "xyz", pc.export(file_type="xyz"), ("load",))
        add("export:ply_points", "ply", pc.export(file_type="ply"), ("load",))
    except Exception as e:
        run.skip("pointcloud seed failed: %s" % type(e).__name__)
    try:
        path = trimesh.load_path(np.array([[[0, 0], [1, 0]], [[1, 0], [1, 1]], [[1, 1], [0, 0]]], dtype=float))
        circ = trimesh.path.creation.circle(radius=1.0)
        both = trimesh.path.util.concatenate([path, circ])
        add("export:dxf", "dxf", both.export(file_type="dxf"), ("load", "load_path"))
        add("export:svg", "svg", both.export(file_type="svg"), ("load", "load_path"))
    except Exception as e:
        run.skip("path seed failed: %s" % type(e).__name__)
    try:
        vox = trimesh.voxel.VoxelGrid(np.arange(64).reshape(4, 4, 4) % 3 == 0)
        add("export:binvox", "binvox", vox.export(file_type="binvox"), ("load",))
    except Exception as e:
        run.skip("binvox seed failed: %s" % type(e).__name__)

    # small bundled models: one or two per registered extension
    models = os.path.join(os.environ.get("VERIF_MODELS", "/repo/models"))
    cap = 8 * 1024 if run.tier == "quick" else 64 * 1024
    wanted = {
        "3dxml": ["blocks.3dxml"], "3mf": ["featuretype.3MF"], "dae": ["blue_cube.dae"],
        "glb": ["cube.glb", "BoxInterleaved.glb", "empty_nodes.glb"], "msh": ["insulated.msh"],
        "off": ["whitespace.off", "comments.off"], "ply": ["metadata.ply", "points_ascii.ply"],
        "stl": ["large_block.STL"], "xaml": ["plane.xaml"], "xyz": ["points_agisoft.xyz"],
        "zip": ["ascii.stl.zip"], "binvox": ["chair_model.binvox"], "bz2": ["rock.obj.bz2"],
        "obj": ["face_in_group_name.obj"], "ctm": ["headless.ctm"], "step": ["featuretype.STEP"],
    }
    # the only bundled STEP files are large: taken whatever the cap, with the statement-level
    # operators only (a load is a run of the native converter: 0.3 s)
    light = {"featuretype.STEP"}
    for ext, names in wanted.items():
        for name in names:
            p = os.path.join(models, name)
            try:
                data = open(p, "rb").read()
            except OSError:
                run.skip("bundled model missing: " + name)
                continue
            if len(data) > cap and name not in light:
                run.skip("bundled model over the size cap for this tier: " + name)
                continue
            add("model:" + name, ext, data, ("load",), light=name in light, as_base=AS_BASE_NATIVE_THREADS.get(ext))
    return seeds


# ----------------------------------------------------------------------------
# fault enumeration


def structural_offsets(data):
    """Offsets around structure: newlines, NULs, chunk boundaries."""
    out = set()
    for i, b in enumerate(data[:4096]):
        if b in (0x0A, 0x00, 0x20, 0x3C, 0x3E):
            out.update((i, i + 1))
    for k in (4, 8, 12, 16, 20, 24, 28, 32, 80, 84, 84 + 50, 134, 512, 1024):
        out.update((k - 1, k, k + 1))
    return sorted(o for o in out if 0 <= o <= len(data))


def enumerate_ops(run, seed, seeds):
    """Yield (op, args) for one seed; sizes depend on the tier."""
    data = seed["data"]
    n = len(data)
    quick = run.tier == "quick"
    rng = run.pyrng
    yield ("valid", [])
    if seed.get("grown"):
        from vmon.gen import grown

        for family, q_sizes, t_sizes in grown.FAMILIES[seed["ext"]]:
            for size in (q_sizes if quick else t_sizes):
                yield ("grow", [seed["ext"], family, size])
        return
    # statement-level faults of text made of `#id = ENTITY(... #ref ...);` records (ISO 10303-21): one
    # record removed, one entity name replaced by another (dangling, duplicate and ill-typed references)
    from vmon.child_load import tokens_of as _tokens

    nst = len(_tokens(data, "stmt"))
    if nst >= 4:
        nid = len(_tokens(data, "hashid"))
        # (measured on the bundled model: one such fault in ten kills the interpreter; 60 faults miss it 2 times in 1000)
        for _ in range(30 if quick else 300):
            yield ("tokdel", ["stmt", rng.randrange(nst)])
            yield ("tokcopy", ["hashid", rng.randrange(nid), rng.randrange(nid)])
    if seed.get("light"):
        for k in sorted({0, 1, n // 3, n // 2, n - 2, n - 1}):
            yield ("truncate", [k])
        for i in range(4 if quick else 40):
            yield ("multi", [rng.getrandbits(32), rng.choice([2, 8])])
        return
    # one line removed
    nln = len(_tokens(data, "line")) if b"\x00" not in data[:1024] else 0
    if nln >= 3:
        for k in (rng.sample(range(nln), min(nln, 10)) if quick else range(min(nln, 400))):
            yield ("tokdel", ["line", k])
    # truncations
    if n <= 8192 and not quick:
        lens = range(n)
    else:
        stride = max(1, n // (60 if quick else 2000))
        lens = sorted(set(range(0, n, stride)) | set(structural_offsets(data)[: 40 if quick else 100000]) | {0, 1, 2, 3, n - 1, n - 2})
    for k in lens:
        if 0 <= k < n:
            yield ("truncate", [k])
    # single byte substitutions
    if quick:
        offs = sorted(set(range(min(n, 24))) | set(range(0, n, max(1, n // 40))))
        vals = [("sub", 0x00), ("sub", 0xFF), ("xor", 0x80)]
    else:
        offs = range(n) if n <= 16384 else sorted(set(range(1024)) | set(range(0, n, max(1, n // 8000))))
        vals = [("sub", 0x00), ("sub", 0xFF), ("sub", 0x80), ("xor", 0x01), ("xor", 0x80), ("sub", None)]
    for off in offs:
        for op, v in vals:
            yield (op, [off, rng.getrandbits(8) if v is None else v])
    # field-aware: u32 / u16 at aligned and unaligned offsets of the first 512 bytes
    limit = min(n, 512)
    step = 4 if quick else 1
    for off in range(0, limit, step):
        if quick and off >= 128 and off % 32:
            continue
        for v in (0x7FFFFFFF, 0x80000000, 0xFFFFFFFF, 0x00FFFFFF) if not quick else (0x80000000, 0xFFFFFFFF, 0x00FFFFFF):
            yield ("u32", [off, v])
        if not quick or off % 8 == 0:
            for v in (0x7FFF, 0xFFFF):
                yield ("u16", [off, v])
        # relative: flip the top bits of the value that is there / off-by-one (wrap-around and
        # count-versus-length checks depend on the low bits staying what they were)
        if off % 4 == 0 or not quick:
            for v in (0x80000000, 0x40000000) if quick else (0x80000000, 0x40000000, 0xC0000000, 0x00010000):
                yield ("u32xor", [off, v])
            if not quick or off < 128:
                yield ("u32add", [off, 1])
                yield ("u32add", [off, 0xFFFFFFFF])
    # decimal tokens of text headers
    import re

    toks = list(re.finditer(rb"(?<![\w.])-?\d+(?:\.\d+)?(?:[eE][-+]?\d+)?(?![\w.])", data[:4096]))
    ntok = min(len(toks), 24 if quick else 400)
    for k in range(ntok):
        t = toks[k].group().decode()
        reps = [t + "0000000", "99999999999", "-" + t.lstrip("-"), "nan", "inf", "-1", "0", ""]
        if quick:
            reps = reps[:2] + reps[3:6]
        for r_ in reps:
            yield ("token", [k, r_])
    # structure-aware faults --------------------------------------------------------------
    from vmon.child_load import json_nodes, split_json, tokens_of

    def text_faults(doc, budget):
        """faults of a text document: ids copied onto other ids (cycles, dangling and double
        references), numbers inflated, asset references redirected"""
        ids = tokens_of(doc, "idattr")
        pairs = [(k, j) for k in range(len(ids)) for j in range(len(ids)) if ids[k].group() != ids[j].group()]
        seen, uniq = set(), []
        for k, j in pairs:  # one representative per (slot, value)
            if (k, ids[j].group()) not in seen:
                seen.add((k, ids[j].group()))
                uniq.append((k, j))
        if len(uniq) > budget:
            uniq = rng.sample(uniq, budget)
        for k, j in uniq:
            yield ("tokcopy", ["idattr", k, j])
        for k in range(min(len(tokens_of(doc, "ref")), 6)):
            for target in ("/dev/zero", "@self", "../" * 8 + "dev/zero", "missing.bin"):
                yield ("ref", [k, target])

    if data[:2] == b"PK":
        import zipfile

        try:
            zf = zipfile.ZipFile(io.BytesIO(data))
            members = [(i, zf.read(inf.filename)) for i, inf in enumerate(zf.infolist())][:6]
        except Exception:
            members = []
        for mi, payload in members:
            m = len(payload)
            inner = [("truncate", [c]) for c in sorted({0, 1, m // 3, m // 2, m - 1}) if 0 <= c < m]
            toks_n = min(len(tokens_of(payload, "num")), 10 if quick else 120)
            for k in range(toks_n):
                for r_ in (("99999999999", "-1") if quick else ("99999999999", "-1", "nan", "", "0")):
                    inner.append(("token", [k, r_]))
            inner += list(text_faults(payload, 40 if quick else 2000))
            if split_json(payload) is not None:
                nn = len(json_nodes(split_json(payload)[0]))
                picks = range(nn) if not quick else rng.sample(range(nn), min(nn, 25))
                for idx in picks:
                    for act in ("del", "big", "neg", "inc", "null", "str", "list", "dict"):
                        inner.append(("json", [idx, act]))
            for _ in range(4 if quick else 200):
                if m:
                    inner.append(("sub", [rng.randrange(m), rng.getrandbits(8)]))
            for iop, iargs in inner:
                yield ("zipinner", [mi, iop, iargs])
    else:
        for f in text_faults(data, 40 if quick else 2000):
            yield f
        parts = split_json(data)
        if parts is not None:
            nodes = json_nodes(parts[0])
            nn = len(nodes)
            picks = range(nn) if not quick else rng.sample(range(nn), min(nn, 40))
            for idx in picks:
                for act in ("del", "big", "neg", "inc", "null", "str", "list", "dict"):
                    yield ("json", [idx, act])
            # two faults in one object: a key dropped AND a sibling number inflated / negated (a
            # size that is only trusted once the field that bounds it is gone)
            pairs = []
            for i1, (h1, k1) in enumerate(nodes):
                if not isinstance(h1, dict):
                    continue
                for i2, (h2, k2) in enumerate(nodes):
                    if h2 is h1 and i2 != i1 and isinstance(h1[k2], (int, float)) and not isinstance(h1[k2], bool):
                        pairs.append((i1, i2))
            if quick and len(pairs) > 40:
                pairs = rng.sample(pairs, 40)
            for i1, i2 in pairs:
                yield ("json2", [i1, "del", i2, "big"])
                if not quick:
                    yield ("json2", [i1, "del", i2, "neg"])
    # the whole file, or one line-aligned block of it, many times over: the bound is LINEAR in the
    # input, so work that grows with the square of the number of records shows once files get long
    # (an ASCII STL of 16000 equally named solids took ten times the bound)
    if n >= 16 and n <= 4096:
        reps = (400,) if quick else (2000, 16000)
        nl = [i + 1 for i, ch in enumerate(data[:2048]) if ch == 0x0A]
        blocks = [(0, n)]
        if len(nl) >= 3:
            blocks.append((nl[0], nl[-1]))
            blocks.append((nl[len(nl) // 2 - 1], nl[len(nl) // 2]))
        for a, b in blocks:
            for k in reps:
                if (b - a) * k <= (1 << 21):
                    yield ("repeat", [a, b, k])
    # chunk delete / duplicate / swap
    nchunk = 12 if quick else 400
    for _ in range(nchunk):
        if n < 4:
            break
        a = rng.randrange(0, n - 1)
        b = min(n, a + rng.choice([1, 2, 4, 16, 64, 256]))
        c = min(n, b + rng.choice([1, 4, 16, 64]))
        yield ("delete", [a, b])
        yield ("dup", [a, b])
        yield ("swap", [a, b, c])
    # splices with another seed
    others = [s for s in seeds if s is not seed and len(s["data"]) <= 8192]
    for _ in range(6 if quick else 60):
        if not others or n < 2:
            break
        o = rng.choice(others)
        yield ("splice", [o["data"].hex(), rng.randrange(n), rng.randrange(len(o["data"]))])
    # noise
    for i in range(12 if quick else 400):
        kind = ("random", "ascii", "prefix")[i % 3]
        yield ("noise", [rng.getrandbits(32), rng.choice([0, 1, 7, 64, 300, 2000]), kind])
    for i in range(8 if quick else 300):
        yield ("multi", [rng.getrandbits(32), rng.choice([2, 3, 8, 32])])


def build_cases(run, seeds):
    cases = []
    cid = 0
    for si, seed in enumerate(seeds):
        for op, args in enumerate_ops(run, seed, seeds):
            # entry points: the default `load` via file object for every fault; the other
            # entry points and the by-path route on a thinner subset
            routes = [("load", "file")]
            h = (cid * 2654435761) & 0xFFFFFFFF
            if op == "valid" or h % 16 == 0:
                routes += [(e, "file") for e in seed["entries"] if e != "load"]
            # size-field faults always also go through the by-path route: read(n) on a real
            # file allocates n bytes up front, BytesIO does not
            if op == "valid" or h % 8 == 1 or op in ("u32", "u16", "token", "u32xor", "u32add", "json", "json2"):
                routes += [(seed["entries"][h % len(seed["entries"])], "path")]
            if op == "ref" or (op == "zipinner" and args[1] == "ref"):
                # only a load by name has a directory to resolve other files in
                routes = [(seed["entries"][h % len(seed["entries"])], "path")]
            if seed.get("companions") and (op != "valid") and h % 2 == 0:
                # a model with companion files only has them when loaded by name
                routes += [(seed["entries"][h % len(seed["entries"])], "path")]
            if op == "grow":
                # flattening instances is what load_mesh adds to load: the quick tier takes it for the instance
                # graphs and load for the rest (a case that breaks the CPU bound costs the bound before it is interrupted)
                deep = (args[1].startswith("graph:") or args[1] == "nested") and "load_mesh" in seed["entries"]
                routes = [("load_mesh" if deep else "load", "file")]
                if run.tier != "quick":
                    routes = [(e, "file") for e in seed["entries"]] + [(seed["entries"][h % len(seed["entries"])], "path")]
            if op == "valid":
                routes += [(e, "path") for e in seed["entries"]]
                # by name with the type spelled out, and as a pathlib.Path
                routes += [(e, "path_ft") for e in seed["entries"]] + [("load", "pathlib")]
            elif h % 16 == 3:
                routes += [(seed["entries"][h % len(seed["entries"])], "path_ft")]
            for entry, via in dict.fromkeys(routes):
                cases.append([cid, si, op, args, entry, via])
                cid += 1
    only = os.environ.get("VERIF_C20_OPS")  # development aid: run a slice of the enumeration (such a run is INCONCLUSIVE)
    if only:
        cases = [c for c in cases if c[2] in only.split(",")]
        run.inconclusive("VERIF_C20_OPS=%s: only a slice of the enumeration was run" % only)
    return cases


# ----------------------------------------------------------------------------
# children


def run_children(run, seeds, cases, work):
    """Run all cases in child processes; yield result records joined with their case."""
    seed_payload = [{"id": s["id"], "ext": s["ext"], "hex": s["data"].hex(), "as_base": s.get("as_base"),
                     "companions": {k: v.hex() for k, v in s.get("companions", {}).items()}} for s in seeds]
    env = dict(os.environ)
    env["PYTHONPATH"] = os.pathsep.join([p for p in sys.path if p]) if not env.get("PYTHONPATH") else env["PYTHONPATH"]
    # round-robin: every batch holds cases of every seed and operator class, so a run that is
    # cut short by the budget on a loaded machine is still a uniform sample of the enumeration
    # phase 1: valid files and size-field / token faults (where allocation and seek arithmetic
    # go wrong); phase 2: everything else.  A budget cut removes part of phase 2 only.
    PRIO = ("valid", "u32", "u16", "u32xor", "u32add", "token", "json", "json2", "tokcopy", "ref", "zipinner", "repeat")
    # phase 0: grown files, a few per child: one that breaks the CPU bound keeps its child busy for
    # 1.5x the bound, so they start first and next to each other rather than one after the other
    # (the same for faults that are likely to kill the child: what is left of its batch is run again)
    first = lambda c: c[2] == "grow" or (seeds[c[1]].get("light") and c[2] != "valid")  # noqa: E731
    grow = [c for c in cases if first(c)]
    prio = [c for c in cases if c[2] in PRIO and not first(c)]
    rest = [c for c in cases if c[2] not in PRIO and not first(c)]
    batches = []
    n_heavy = 0
    next_id = max(c[0] for c in cases) + 1
    for group in (grow, prio, rest):
        if not group:
            continue
        nb = max(1, -(-len(group) // (GROW_PER_CHILD if group is grow else CASES_PER_CHILD)))
        part = [group[i::nb] for i in range(nb)]
        run.pyrng.shuffle(part)
        batches += part
        if group is grow:
            n_heavy = len(part)
    # every child first loads each seed it needs unmodified, as ordinary MONITORED cases
    # flagged "warmup": lazy imports of optional back ends happen there, so their one-off
    # allocations are not charged to a mutated case; only the RSS bound is waived for them
    warm = []
    for batch in batches:
        need = sorted({c[1] for c in batch})
        pre = []
        for sidx in need:
            pre.append([next_id, sidx, "valid", [], "load", "file", "warmup"])
            next_id += 1
        warm.append(pre + batch)
    batches = warm
    pending = list(enumerate(batches))
    # the heavy batches take at most two thirds of the children, from the start; the enumeration proper
    # runs next to them (a quick run on a loaded machine still observes thousands of faults)
    heavy, pending = pending[:n_heavy], pending[n_heavy:]
    heavy_ids = {bi for bi, _ in heavy}
    # grown files before the faults that kill children
    heavy.sort(key=lambda b: 0 if any(c[2] == "grow" for c in b[1]) else 1)
    suspects = set()
    slow = []
    running = {}
    results = {}
    entered = set()
    started = {}
    dead_cases = []
    n_children = 0
    t_stop = run.t0 + run.budget * 0.92

    def launch(bi, batch):
        nonlocal n_children
        n_children += 1
        job = dict(LIMITS)
        # only ship the seeds this batch needs
        need = sorted({c[1] for c in batch})
        remap = {s: i for i, s in enumerate(need)}
        job["seeds"] = [seed_payload[s] for s in need]
        job["cases"] = [[c[0], remap[c[1]], c[2], c[3], c[4], c[5]] for c in batch]
        job["warm_ids"] = [c[0] for c in batch if len(c) > 6]
        job["tmpdir"] = work
        jp = os.path.join(work, "job_%d_%d.json" % (bi, n_children))
        op = os.path.join(work, "out_%d_%d.jsonl" % (bi, n_children))
        with open(jp, "w") as f:
            json.dump(job, f)
        # watchdog: generous, its firing alone is never a violation (the case that was
        # running is re-run alone and judged by its own CPU accounting)
        nbytes = sum(len(seeds[c[1]]["data"]) for c in batch)
        deadline = time.time() + 120 + len(batch) * 0.5 + nbytes * 4e-5
        p = subprocess.Popen(
            [sys.executable, "-m", "vmon.child_load", jp, op],
            cwd=HERE, env=env, stdout=subprocess.DEVNULL, stderr=open(op + ".stderr", "w"),
        )
        running[p] = (bi, batch, jp, op, deadline, time.time())

    def collect(p, killed=False):
        bi, batch, jp, op, deadline, t_launch = running.pop(p)
        slow.append((round(time.time() - t_launch, 1), round(t_launch - run.t0, 1), len(batch), bi in heavy_ids,
                     sorted({c[2] for c in batch})[:4]))
        by_id = {c[0]: c for c in batch}
        done_ids = set()
        last_started = None
        finished_clean = False
        tree_ok = None
        try:
            with open(op) as f:
                for line in f:
                    try:
                        rec = json.loads(line)
                    except ValueError:
                        continue
                    if "hello" in rec:
                        tree_ok = rec["hello"]
                    elif rec.get("done"):
                        finished_clean = True
                        entered.update(rec.get("entered", []))
                    elif rec.get("phase") == "start":
                        last_started = rec["id"]
                    elif rec.get("phase") == "end":
                        results[rec["id"]] = (by_id[rec["id"]], rec)
                        done_ids.add(rec["id"])
        except OSError:
            pass
        if tree_ok is not None:
            run.note("child_trimesh_path", tree_ok)
        if not finished_clean:
            # the child died (or was killed by the watchdog) while running `last_started`
            rc = p.returncode
            if killed:
                # not a verdict (the case is run again, first in a fresh child), but it costs wall time: keep a trace
                run.count("watchdog_kills")
                if last_started in by_id:
                    c = by_id[last_started]
                    run.state("watchdog_suspects", "%s %s %s %s/%s" % (seeds[c[1]]["id"], c[2], str(c[3])[:60], c[4], c[5]))
            rest = [c for c in batch if c[0] not in done_ids and c[0] != last_started]
            if last_started is not None and last_started not in done_ids:
                c = by_id[last_started]
                if rc == -signal.SIGPROF and not killed:
                    # the child's own CPU timer, armed for this case alone: the verdict is the case's, beyond doubt
                    results[c[0]] = (c, {
                        "id": c[0], "phase": "end", "outcome": "cpu_timeout", "site": "native",
                        "detail": "killed by the CPU timer of the case at 2x the bound: native code never returned to the interpreter",
                        "cpu": None, "leaked": [], "rss_growth": 0, "rss_limit": 1, "cpu_limit": 1, "fd_growth": 0,
                    })
                elif len(batch) == 1 or (c[0] in suspects and batch[0][0] == c[0]):
                    # it was alone, or the first case of a fresh child: nothing ran before it
                    fault = ""
                    try:
                        fault = open(op + ".fault").read()[-1500:]
                    except OSError:
                        pass
                    sig = -rc if rc is not None and rc < 0 else None
                    results[c[0]] = (c, {
                        "id": c[0], "phase": "end",
                        "outcome": "watchdog" if killed else "crash",
                        "detail": "exit=%s signal=%s" % (rc, sig), "fault": fault,
                        "cpu": None, "leaked": [], "rss_growth": 0, "rss_limit": 1, "cpu_limit": 1, "fd_growth": 0,
                    })
                else:
                    # run the suspect again as the FIRST case of a fresh child so that it is identified
                    # beyond doubt (what is left of the batch follows it in the same child)
                    suspects.add(c[0])
                    rest = [c] + rest
            if rest:
                pending.insert(0, (bi, rest))
        for fn in (jp, op, op + ".fault", op + ".stderr"):
            try:
                os.remove(fn)
            except OSError:
                pass

    while pending or heavy or running:
        while (pending or heavy) and len(running) < NCHILD:
            if time.time() > t_stop and pending and pending[0][1][0][0] in suspects and len(pending[0][1]) > 1:
                # out of budget: the suspect is still confirmed, alone
                run.count("cases_not_run_budget", len(pending[0][1]) - 1)
                pending[0] = (pending[0][0], pending[0][1][:1])
            if time.time() > t_stop and not any(len(b) == 1 for _, b in pending[:1]):
                run.count("batches_not_run_budget", len(pending) + len(heavy))
                run.count("cases_not_run_budget", sum(len(b) for _, b in pending + heavy))
                if heavy:
                    run.count("heavy_batches_not_run_budget", len(heavy))
                pending.clear()
                heavy.clear()
                break
            heavy_running = sum(1 for v in running.values() if v[0] in heavy_ids)
            if heavy and (heavy_running < HEAVY_SLOTS or not pending):
                bi, batch = heavy.pop(0)
            else:
                bi, batch = pending.pop(0)
            launch(bi, batch)
        time.sleep(0.05)
        for p in list(running):
            rc = p.poll()
            if rc is not None:
                collect(p)
            elif time.time() > running[p][4]:
                p.kill()
                p.wait()
                collect(p, killed=True)
    run.note("children_started", n_children)
    run.note("slowest_children", ["%.1fs (started at %.1fs) cases=%d heavy=%s ops=%s" % t for t in sorted(slow, reverse=True)[:6]])
    return results, entered


# ----------------------------------------------------------------------------


def op_class(op, args=None):
    if op == "zipinner" and args:
        return "zip_member:" + op_class(args[1])
    if op == "tokdel" and args:
        return args[0] + "_removed"
    return {"repeat": "repeat", "tokcopy": "id_copy", "json": "json", "json2": "json_pair", "ref": "asset_ref",
            "sub": "byte", "xor": "byte", "u32": "field", "u16": "field", "u32xor": "field", "u32add": "field", "token": "token",
            "delete": "chunk", "dup": "chunk", "swap": "chunk", "noise": "noise", "multi": "multi", "grow": "grown",
            "raw": "noise"}.get(op, op)


def input_class(op, args):
    """Key of a grown file: loader + `sym=nonlinear` + the family.  The family IS the input class; time and memory
    grow together (2^n instances cost both), which bound breaks first is a race, and the frame an interrupt
    lands in moves around: neither belongs in a key that has to be the same on every run."""
    return "nonlinear input=%s" % args[1] if op == "grow" else None


def judge(run, seeds, results):
    grown_table = []
    for cid, (case, rec) in sorted(results.items()):
        _, si, op, args, entry, via = case[:6]
        warmup = len(case) > 6
        seed = seeds[si]
        ext = seed["ext"]
        outcome = rec["outcome"]
        nontrivial = op != "valid"
        grown = input_class(op, args)
        if op == "grow":
            run.state("grown_family_outcomes:" + ext, "%s n=%s %s" % (args[1], args[2], outcome))
            grown_table.append("%s %s n=%s %s/%s len=%s -> %s cpu=%.2f/%.1f rss+%dM" % (
                ext, args[1], args[2], entry, via, rec.get("len"), outcome, -1 if rec.get("cpu") is None else rec["cpu"], rec.get("cpu_limit") or -1,
                (rec.get("rss_growth") or 0) >> 20))
        run.case("%s:%s:%s:%s" % (ext, entry, via, op_class(op, args)), seed["id"], op, tuple(map(str, args))[:3], entry, via,
                 nontrivial=nontrivial,
                 sample={"seed": seed["id"], "op": op, "args": args if op not in ("splice", "raw") else "...", "entry": entry,
                         "via": via, "outcome": outcome, "detail": rec.get("detail")} if cid % 1501 == 0 else None)
        run.count("outcome:" + outcome + (":" + str(rec.get("detail")) if outcome == "exception" else ""))
        run.state("loader_outcomes:" + ext, outcome if outcome != "exception" else "exception:" + str(rec.get("detail")))
        witness = {"seed": seed["id"], "ext": ext, "seed_hex": seed["data"].hex() if len(seed["data"]) <= 4096 else None,
                   "op": op, "args": args, "entry": entry, "via": via, "record": rec}
        if outcome in ("crash",):
            run.violation("loader=%s sym=crash:%s" % (ext, rec.get("detail", "").split("signal=")[-1]),
                          "the interpreter died while loading mutated %s bytes (%s)" % (ext, rec.get("detail")), witness)
        elif outcome == "watchdog":
            run.violation("loader=%s sym=hang" % ext,
                          "loading did not finish: killed by the watchdog while the case ran alone", witness)
        elif outcome == "cpu_timeout":
            run.violation("loader=%s sym=%s" % (ext, grown or "cpu site=%s" % rec.get("site")),
                          "CPU time above the linear bound: " + str(rec.get("detail")), witness)
        elif outcome == "memory_error":
            run.violation("loader=%s sym=%s" % (ext, grown or "memory site=%s" % rec.get("site")),
                          "allocation out of proportion to the input (failed under the address-space cap): " + str(rec.get("detail")), witness)
        elif outcome == "base_exception":
            run.violation("loader=%s sym=base_exception:%s" % (ext, rec.get("detail")),
                          "loader raised a non-Exception BaseException", witness)
        elif outcome == "harness_error":
            run.skip("harness error in child: " + str(rec.get("detail"))[:80])
        if outcome in ("geometry", "exception", "recursion_error"):
            if rec.get("cpu") is not None and rec["cpu"] > rec["cpu_limit"]:
                run.violation("loader=%s sym=%s" % (ext, grown or "cpu"), "CPU %.2fs above the bound %.2fs" % (rec["cpu"], rec["cpu_limit"]), witness)
            if rec.get("rss_growth", 0) > rec.get("rss_limit", 1 << 62) and not warmup:
                run.violation("loader=%s sym=%s" % (ext, grown or "rss"),
                              "peak RSS grew %d bytes (bound %d)" % (rec["rss_growth"], rec["rss_limit"]), witness)
        if outcome == "recursion_error":
            run.count("recursion_errors")
        leaked = rec.get("leaked") or []
        if leaked:
            kind = "ok" if outcome == "geometry" else "fail"
            run.violation("leak entry=%s via=%s loader=%s when=%s" % (entry, via, ext, kind),
                          "a file the loader opened was left open: %s" % leaked[:2], witness)
        elif rec.get("fd_growth", 0) > 0 and via == "path":
            run.count("fd_growth_without_tracked_file")
    if grown_table:
        run.note("grown_files", sorted(grown_table))


def workload(run):
    work = tempfile.mkdtemp(prefix="c20-", dir=_workdir())
    try:
        seeds = build_seeds(run)
        run.note("seeds", [{"id": s["id"], "ext": s["ext"], "len": len(s["data"])} for s in seeds])
        cases = build_cases(run, seeds)
        run.note("cases_enumerated", len(cases))
        results, entered = run_children(run, seeds, cases, work)
        run.entered |= entered
        run.note("cases_run", len(results))
        judge(run, seeds, results)
        if len(results) < len(cases):
            # not a verdict: the evidence says how much of the enumeration was observed
            run.note("enumeration_cut_short_by_budget", "%d of %d cases ran" % (len(results), len(cases)))
    finally:
        shutil.rmtree(work, ignore_errors=True)


def _workdir():
    d = os.path.join(HERE, ".work")
    os.makedirs(d, exist_ok=True)
    return d


def replay(run, case):
    """Re-run one recorded witness alone in a child."""
    work = tempfile.mkdtemp(prefix="c20r-", dir=_workdir())
    try:
        if case.get("seed_hex"):
            seeds = [{"id": case["seed"], "ext": case["ext"], "data": bytes.fromhex(case["seed_hex"]), "entries": [case["entry"]]}]
        else:
            seeds = [s for s in build_seeds(run) if s["id"] == case["seed"]]
        cases = [[0, 0, case["op"], case["args"], case["entry"], case["via"]]]
        results, entered = run_children(run, seeds, cases, work)
        judge(run, seeds, results)
    finally:
        shutil.rmtree(work, ignore_errors=True)
